#!/bin/sh
# tools/eval_and_show.sh <dir>... : evaluate seeded changes and print a compact summary
cd "$(dirname "$0")/.." || exit 2
tools/eval_seeded.py "$@" 2>&1 | python3 -c "
import sys,json
txt=sys.stdin.read()
dec=json.JSONDecoder(); i=0
while i<len(txt):
    while i<len(txt) and txt[i]!='{': i+=1
    if i>=len(txt): break
    o,j=dec.raw_decode(txt,i); i=j
    print(o['id'], 'applies',o.get('patch_applies'),'suite',o.get('suite_passes'),'demo(with/without)',o.get('demo_with_change'),o.get('demo_without_change'))
    for c,v in o.get('checks',{}).items(): print('   ',c,'CAUGHT' if v['caught'] else 'MISSED', 'exit',v['exit'], [l[:260] for l in v['lines'][1:3]], v['summary'][-80:])
"
