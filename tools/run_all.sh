#!/bin/sh
# Runs every claimed check at the given tier (default quick) exactly as registered; prints one summary line per check.
cd "$(dirname "$0")/.." || exit 2
TIER="${1:-quick}"
rc=0
for p in $(python3 -c "import json; print(' '.join(c['property_id'] for c in json.load(open('MANIFEST.json'))['checks']))"); do
  out=$(timeout 3000 ./check "$p" --tier "$TIER" 2>&1); code=$?
  echo "$out" | grep -E "^VIOLATION|^KNOWN-FINDING|^HARNESS" | cut -c1-200
  echo "$out" | tail -1 | sed "s/^/[exit $code] /"
  [ $code -ne 0 ] && rc=1
done
exit $rc
