#!/usr/bin/env python3
"""Rewrites the seeded-change table of DESIGN.md (between the BEGIN/END SEEDED TABLE markers) from seeded/*/meta.json."""
import glob, json, os, re
VERIF = os.path.dirname(os.path.dirname(os.path.abspath(__file__)))
rows = []
missed_first = []
n = 0
for d in sorted(glob.glob(os.path.join(VERIF, "seeded", "*", ""))):
    m = json.load(open(os.path.join(d, "meta.json")))
    n += 1
    notes = m.get("needs_to_manifest", "").strip().splitlines()
    text = " ".join(l.strip("# ").strip() for l in notes if l.strip())
    text = re.sub(r"\s+", " ", text)[:300].replace("|", "/")
    c = m["checks"].get(m["breaks_property"], {})
    orc = ""
    for l in c.get("first_lines", []):
        mm = re.search(r"oracle=(\S+)", l)
        if mm:
            orc = mm.group(1)
            break
    hist = m.get("history", "caught by the first version of the check")
    if "missed" in hist or "harness error" in hist or "only by luck" in hist:
        missed_first.append(m["id"])
    rows.append("| %s | %s | %s | %s | %s |" % (m["id"], text, "yes" if c.get("caught") else "**NO**", orc, hist.replace("|", "/")[:260]))
head = """Round 1 (ids -a, -b): two changes per property, "needs something specific to manifest". Round 2 (ids -c, -d): the agents
were additionally given the one-line summaries of the earlier ideas for their property and asked for *history- or
configuration-dependent* changes. Rounds 3-7 (ids -e ... -n): same, with all earlier ideas listed; rounds 5-7 asked for one
input-triggered and one usage-triggered change per property; rounds 8 and 9 (ids -o, -p) asked for one change per property of either kind (the C15 agent of round 9 found nothing new
and delivered nothing).
Two agents of round 7 delivered only one change (C16-n, C19-n do not exist) rather than a weak second one. No agent ever saw anything from `/verif`. %d changes in total; all are
caught by the quick tier of the responsible check now.
%d of them were **missed by the version of the check that existed when the change arrived** or caught by it only by luck (%s).
Every miss was a gap of the *generator / workload* (the oracle was right as soon as the situation was produced), of an oracle
that asked too little (C13 path attribution), or of the harness (an uncaught exception of the system under test, a too coarse
known-finding signature). Generators and oracles were extended, never an oracle loosened; what was added is recorded per change in
the last column and in `seeded/<id>/meta.json`.

| id | what the change does / what it needs to manifest (from the agent's notes) | caught | first oracle reported | history |
|---|---|---|---|---|
""" % (n, len(missed_first), ", ".join(missed_first))
p = os.path.join(VERIF, "DESIGN.md")
s = open(p).read()
a = s.index("<!-- BEGIN SEEDED TABLE -->") + len("<!-- BEGIN SEEDED TABLE -->")
b = s.index("<!-- END SEEDED TABLE -->")
s = s[:a] + "\n" + head + "\n".join(rows) + "\n" + s[b:]
open(p, "w").write(s)
print("seeded changes:", n, "missed at first:", len(missed_first))
