#!/bin/sh
# Regression over the seeded changes: every seeded/<ID>/patch.diff is applied to a scratch copy of /repo and the quick check of
# its property (as registered, --no-shrink) must exit 1. usage: tools/recheck_seeded.sh [ID-glob ...]   (default: all)
cd "$(dirname "$0")/.." || exit 2
pats="${*:-*}"
miss=0
for pat in $pats; do
  for d in seeded/$pat; do
    [ -f "$d/patch.diff" ] || continue
    id=$(basename "$d"); prop=$(echo "$id" | cut -d- -f1)
    out=$(DSIM_BUDGET_S="${DSIM_BUDGET_S:-150}" timeout 1800 tools/with_mutant.sh "$PWD/$d/patch.diff" ./check "$prop" --tier quick --no-shrink 2>&1); code=$?
    if [ "$code" -eq 1 ]; then echo "caught $id :: $(echo "$out" | grep -m1 'oracle=' | sed 's/^ *//' | cut -c1-100)"; else echo "MISSED $id exit=$code :: $(echo "$out" | tail -1 | cut -c1-160)"; miss=$((miss+1)); fi
  done
done
echo "missed: $miss"
[ "$miss" -eq 0 ]
