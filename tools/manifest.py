#!/usr/bin/env python3
"""Regenerates MANIFEST.json from the table below (keeps it valid at all times)."""
import json, os, sys
HERE = os.path.dirname(os.path.dirname(os.path.abspath(__file__)))
sys.path.insert(0, HERE)
PROPS = [json.loads(l)["id"] for l in open(os.path.join(HERE, "properties.jsonl"))]

CLAIMS = {
 "C10": dict(
  text="Seeded exploration in World W: generated workspaces are read through the real read_namespace/read_files while the simulator decides directory enumeration order, cwd, spelling (absolute / relative / x/../x / symlink alias / str vs Path), order and duplication of directory arguments and target subsets; every run is executed under two PYTHONHASHSEEDs and the canonical observations compared. Oracle = abstract namespace model (exact result list, order, direct/transitive sets, structural equality with read_namespace, directory-set accept/reject rule). Sampling, not proof; exactly replayable from (VERIF_SEED, run) or the shrunk replay file.",
  note="Trusted: CPython pathlib/os on tmpfs, the reference model (dsim/model). Not covered: case-insensitive file systems, Windows paths, I/O errors, threads.",
  technique="deterministic simulation: seeded enumeration-order / hash-seed / cwd / spelling schedules over a simulated workspace, reference-model oracle",
  ref="§3 C10"),
}
NA = {
 "C04": "pure function of one expression string: no schedule, clock, fault, peer or history for a simulator to control (DESIGN.md §4)",
}

def main():
    checks = []
    for p in PROPS:
        if p in CLAIMS:
            c = CLAIMS[p]
            checks.append({
                "property_id": p,
                "quick_cmd": "./check %s --tier quick" % p,
                "thorough_cmd": "./check %s --tier thorough" % p,
                "evidence_file": "/verif/evidence/%s.json" % p,
                "replay_cmd_template": "./check %s --replay {path}" % p,
                "engine": "dsim",
                "level_claimed": {"category": "exploration", "text": c["text"], "design_ref": c["ref"]},
                "level_note": c["note"],
                "technique": c["technique"],
            })
    na = [{"property_id": p, "reason": NA.get(p, "check not built yet (work in progress; see DESIGN.md §8)")} for p in PROPS if p not in CLAIMS]
    m = {
        "version": 1,
        "setup_cmd": "./check selftest setup",
        "hooks": {"guard": "PYDSDL_VERIF", "enable": "no hooks in /repo: every seam is reached from outside (pathlib.Path._scandir, os.scandir, builtins.open, time.monotonic, os.chdir, PYTHONHASHSEED, sys.settrace)",
                  "baseline_off_cmd": "cd /repo && /venv/bin/python -m pytest -ra -q -p no:cacheprovider --timeout=900 --continue-on-collection-errors",
                  "source_commits": [], "add_only": True},
        "engines": [{"name": "dsim", "path": "/verif/dsim", "serves_properties": sorted(CLAIMS), "kind_free_text": "deterministic simulator: seeded scenario generator, per-hash-seed worker processes, fs/clock/channel seams, reference models, structural shrinker, replay"}],
        "checks": checks,
        "not_applicable": na,
        "notes": "Genuine defects repaired in /repo are listed in known_findings.json (fixed entries suppress nothing).",
    }
    json.dump(m, open(os.path.join(HERE, "MANIFEST.json"), "w"), indent=1)
    print("claimed", len(checks), "not_applicable", len(na))

main()
