#!/usr/bin/env python3
"""Regenerates MANIFEST.json from the table below (keeps it valid at all times)."""
import json, os, sys
HERE = os.path.dirname(os.path.dirname(os.path.abspath(__file__)))
sys.path.insert(0, HERE)
PROPS = [json.loads(l)["id"] for l in open(os.path.join(HERE, "properties.jsonl"))]

CLAIMS = {
 "C10": dict(
  text="Seeded exploration in World W: generated workspaces are read through the real read_namespace/read_files while the simulator decides directory enumeration order, cwd, spelling (absolute / relative / x/../x / symlink alias / str vs Path), order and duplication of directory arguments and target subsets; every run is executed under two PYTHONHASHSEEDs and the canonical observations compared. Oracle = abstract namespace model (exact result list, order, direct/transitive sets, structural equality with read_namespace, directory-set accept/reject rule). Sampling, not proof; exactly replayable from (VERIF_SEED, run) or the shrunk replay file.",
  note="Trusted: CPython pathlib/os on tmpfs, the reference model (dsim/model). Not covered: case-insensitive file systems, Windows paths, I/O errors, threads.",
  technique="deterministic simulation: seeded enumeration-order / hash-seed / cwd / spelling schedules over a simulated workspace, reference-model oracle",
  ref="§3 C10"),
 "C01": dict(
  text="Seeded exploration in World V: operation sequences over a growing pool of BitLengthSets (all five composition operators applied to shared operands, interleaved in seeded order with all queries, divisors up to 2**16, repetition counts up to 2**63, clock jumps); oracle = explicit sets in the small regime and an independent modular sumset algebra (exponentiation by squaring in Z_m) in the huge regime; every recorded answer of every operand is re-checked after new sets were built from it (cache transparency, operand immutability), and the library's own numerical self-check must not fire. The exactness of the reductions is a pure number-theoretic fact decided here only by sampling against an independent algorithm.",
  note="Queries whose cost in the implementation under test would be combinatorial are skipped by a cost estimate (never part of an oracle). Trusted: dsim/model/blsref.py.",
  technique="deterministic simulation: seeded construction / query histories over shared memoised objects with a reference-model oracle",
  ref="§3 C01"),
 "C16": dict(
  text="Seeded exploration in World W with the clock replaced by a deterministic step counter (sys.settrace line events per frame family) and a virtual time.monotonic that jumps: skeleton families are instantiated at capacities 2**j + r, j in {7..62}; the step vector must be identical within each length-prefix width class and bounded across classes, no non-leaf operator may be expanded numerically and no residue set may exceed its divisor while symbolic attributes are queried, results must not depend on clock jumps, a step budget and a watchdog catch growth.",
  note="Probe on private operator names is optional (reported unavailable if gone). enumerate_elements_with_offsets and in-language _offset_ are excluded (documented as linear / numerical).",
  technique="deterministic simulation: virtual step clock (settrace) + virtual monotonic clock with jumps over a seeded capacity schedule",
  ref="§3 C16"),
 "C18": dict(
  text="Seeded exploration in World V: objects harvested from independent reads (composites, services, nested types, attributes, constants, expression values, bit length sets) are subjected to hostile client histories (mutating every list an accessor returns, then re-querying everything), equality / hash laws between independently built and minimally different objects, and pickling into a second interpreter started under another PYTHONHASHSEED and back.",
  note="hash() is only required to be consistent with == inside one interpreter.",
  technique="deterministic simulation: seeded client-mutation histories + cross-interpreter (other hash seed) pickle exchange",
  ref="§3 C18"),
 "C02": dict(
  text="By-product of the reference peer (a pure function of the definition): generated namespaces incl. arrays at every prefix-width boundary capacity and unions at the tag-width boundary are read by the real front end and every type's alignment, extent, prefix / tag / header widths and bit_length_set are compared with an independent reference layout (exact sets when small, else min / max / residues by a modular sumset algebra); for small sealed types the set must equal the lengths actually produced when every shape is serialized.",
  note="Trusted: model/types.py + blsref.py as the Specification's layout rules. The simulation contributes only the observed-length cross-check.",
  technique="deterministic simulation harness: reference-layout oracle + exhaustive shape serialization (by-product claim)",
  ref="§3 C02"),
 "C06": dict(
  text="Seeded exploration in World X, fault-free configuration: three parties - writer (pydsdl.serialize), reader (pydsdl.deserialize) and an independent reference peer (Specification codec over the abstract type language). For every generated type 12-40 seeded values incl. out-of-range numbers, NaN / inf / subnormals, empty / full arrays, multi-byte UTF-8, omitted fields, relaxed forms, with and without delimiter header: bytes identical to the reference peer's, round trip equals the reference's canonicalisation, length in bit_length_set. This is the baseline for C07 / C14's relaxed oracles.",
  note="Trusted: struct for IEEE-754 rounding. Not generated: infinite input for saturated floats, non-integral float inputs for integer fields, ambiguous bare-dict relaxed forms. Caller-owned value objects must be left unchanged by serialize().",
  technique="deterministic simulation: writer / reader / reference-peer differential over seeded types and values (fault-free baseline)",
  ref="§3 C06"),
 "C07": dict(
  text="Seeded exploration in World X with a faulty byte channel: every byte prefix (torn write), prefixes inside length prefixes / tags / headers / nested delimited payloads, appended zeros and junk, single-bit flips, targeted over-capacity prefixes / out-of-range tags / oversized headers, random bytes. Oracles: only SerDesError / ValueError, fixed point of returned objects, agreement with the reference peer's decoder on value or rejection, truncation and zero-extension laws, independence from buffer type and neighbours.",
  note="Capacities are kept small so that decode loops are bounded. The reference decoder is the stated semantics of implicit truncation / zero extension / bounded nested readers.",
  technique="deterministic simulation: seeded channel faults (truncate / extend / flip / targeted control-field corruption) with a reference-peer oracle",
  ref="§3 C07"),
 "C08": dict(
  text="Seeded exploration in World X: offset sets yielded by iterate_fields_with_offsets / enumerate_elements_with_offsets (composed recursively the way a code generator does, for base {0} and for seeded multi-valued / unaligned bases) must equal the reference layout, contain every start bit at which the reference peer actually wrote the field, and for small types without delimited members equal the union of start bits over all shapes; @print _offset_ / T._bit_length_ / T._extent_ inserted at seeded positions must print the API's values.",
  note="Completeness by enumeration is not demanded after a delimited member (its set deliberately covers future revisions); there the reference layout is the oracle.",
  technique="deterministic simulation: reference-peer position map as a monitor on simulated traffic + reference layout",
  ref="§3 C08"),
 "C14": dict(
  text="Seeded exploration in World X with schema skew: two nodes hold two revisions of a delimited structure (same extent, one field list a prefix of the other) nested as a field, fixed / variable array element, union variant and inside another delimited type; container layout (bit_length_set, extent, all offsets) must be identical in both worlds, and traffic in both directions must keep common fields, zero-fill unknown ones, skip extras and keep every later field and element intact; the reference peer must agree, also under truncation faults.",
  note="D is a structure (the property speaks of fields); appended fields are of any kind incl. nested delimited types.",
  technique="deterministic simulation: two-party schema-skew traffic with channel faults and a reference-peer / evolution-rule oracle",
  ref="§3 C14"),
 "C03": dict(
  text="Seeded exploration in World W of the statement-stream state machine under end-of-input and formatting faults: each generated definition is rendered under 4-7 formatting vectors (final newline absent, CRLF, blank runs, trailing blanks, blanks-only 'empty' lines, orphan comment blocks, directive order, every way the text can end) and read through the real front end; oracles: mirror against the abstract definition (order, names, normalized types, exact values, attached comments, flags, request/response), identical canonical form across all vectors, and round trip of the returned model through canonical DSDL.",
  note="Comment attachment is asserted only for the two unambiguous placements; trailing blanks are not appended to comment lines (they are comment content).",
  technique="deterministic simulation: seeded storage-formatting / truncated-tail faults on the statement stream, reference-model + metamorphic oracles",
  ref="§3 C03"),
 "C17": dict(
  text="Seeded exploration in World W: one located event per run (a faulty statement of 40 kinds or 1-3 @print directives with unique payloads) is planted at a seeded line of a seeded definition (target or dependency at any depth) and the workspace is read in seeded orders so that the definition is reached directly or through referrers; the error's path and line and every delivered (path, line, text) must be the statement's own; deliveries are counted per evaluation of the file.",
  note="Finalisation-time errors (no single statement) assert the path, and a reported line must lie in that file. Known finding F5 (print path of dependencies) is listed in known_findings.json.",
  technique="deterministic simulation: seeded reach-order and formatting schedules with a line-map reference model",
  ref="§3 C17"),
 "C13": dict(
  text="Seeded exploration in World W with storage corruption of one definition inside the closure (torn writes at line / token / character boundaries, lost / duplicated / spliced blocks, token-level edits, character noise incl. control and non-ASCII characters, ~150 arithmetic and lexical corner fragments of bounded magnitude and nesting, service types used as values) or one stray directory entry (39 odd file and directory names incl. twins): the read returns or raises InvalidDefinitionError with a path inside the workspace; InternalError, foreign exceptions and hangs (watchdog) are violations.",
  note="Bounded magnitude and nesting (pre-filter). Path attribution is demanded when the corrupted file is rejected on its own and the corruption introduced no new reference. Not injected: unreadable files, non-UTF-8 bytes, symbolic links that resolve outside the root.",
  technique="deterministic simulation: seeded storage-corruption faults on a simulated workspace, exception-class oracle, watchdog for termination",
  ref="§3 C13"),
 "C19": dict(
  text="Seeded exploration in World W: one logical read is executed three times while the simulator rewrites, adds and renames files that the abstract namespace model proves to lie outside the dependency closure (garbage, every rule violation of the catalogue, failing @assert, @print, kind / extent / port-ID conflicts, odd directory names; malformed file names in a sub-mode); canonical results or the raised error (class, path, line) must be identical, and the print handler must never see an out-of-closure directive. Sampling, replayable.",
  note="Trusted: closure computed by the reference model; the open() monitor is a probe only. Not covered: I/O errors, non-UTF-8 bytes.",
  technique="deterministic simulation: seeded file-mutation schedule between reads of a simulated workspace, metamorphic + model oracle",
  ref="§3 C19"),
 "C09": dict(
  text="Seeded exploration in World W over dependency graphs (chains, diamonds, fans, version families, cross-root edges) read in seeded orders (read_namespace per root, read_files on subsets, stand-alone reads): every composite reachable through Field.data_type must match the model of the named definition and the stand-alone read of it; planted reference defects (missing name/version, self reference, cycles through fields and type expressions, letter-case mismatch, same name+version in two lookup directories) must end in InvalidDefinitionError - never a return, InternalError, RecursionError or hang (watchdog).",
  note="Trusted: reference model of resolution (exact full name + exact version). Reach order is controlled through seeded names and target subsets, measured by open-order signatures.",
  technique="deterministic simulation: seeded reach-order schedules over cached definition objects, reference-model oracle, watchdog for termination",
  ref="§3 C09"),
 "C15": dict(
  text="Seeded exploration in World W: definition files at depths 0-4 with mixed-case names, boundary versions and port-IDs are read under every designation of targets and roots (absolute, bare name, '..', symlink alias, namespace-relative target with absolute / cwd-relative / no root, decoy directories, list order, varying cwd); identity and source paths must equal what the model decodes from the path; supported designations must succeed, documented-open ones are checked for soundness only; malformed file / directory names in a scanned root must be rejected.",
  note="Not generated: numeric components only Python's int() accepts; bare root names with a relative target when a same-named directory exists under cwd (ambiguous).",
  technique="deterministic simulation: seeded cwd / designation / alias configurations of a simulated workspace, reference-model oracle",
  ref="§3 C15"),
 "C05": dict(
  text="By-product of the fault catalogue (a pure predicate; the simulation only adds position / order / spelling independence): valid generated workspaces receive 0-2 injections (18 abstract mutators, 40 raw statement / directive injectors); the verdict is computed from the mutated abstract workspace by model/rules.py, so boundary neighbours that stay valid must be accepted and everything else rejected with InvalidDefinitionError, in targets and dependencies alike.",
  note="Trusted: model/rules.py as the statement of the static rules (reserved-word list from the Specification). Open cases (attribute names differing by case) are skipped.",
  technique="deterministic simulation harness used for catalogue-driven rule-violation injection with a reference predicate (by-product claim)",
  ref="§3 C05"),
 "C11": dict(
  text="Seeded exploration in World W over families of definitions (majors incl. 0, minors, message/service, port-ID patterns, sealing, extents) distributed over a target root, a lookup root and a split root, partly inside and partly outside the closure; three-valued model verdict (must reject / must accept / open) compared with read_namespace and read_files.",
  note="Open (either verdict accepted): a direct definition's port-ID colliding with a transitive one's.",
  technique="deterministic simulation: seeded file-system configurations (placement / closure membership) with a reference predicate",
  ref="§3 C11"),
 "C12": dict(
  text="By-product (pure predicate): boundary-value constants for every kind / width / cast mode are read one definition at a time; acceptance must equal model/rules.py and every returned Constant must satisfy the independent range tables and carry the exact rational.",
  note="Trusted: independent IEEE-754 limits and integer ranges in model/types.py.",
  technique="deterministic simulation harness used for boundary-value injection with an invariant monitor (by-product claim)",
  ref="§3 C12"),
}
NA = {
 "C04": "pure function of one expression string: no schedule, clock, fault, peer or history for a simulator to control (DESIGN.md §4)",
}

def main():
    checks = []
    for p in PROPS:
        if p in CLAIMS:
            c = CLAIMS[p]
            checks.append({
                "property_id": p,
                "quick_cmd": "./check %s --tier quick" % p,
                "thorough_cmd": "./check %s --tier thorough" % p,
                "evidence_file": "/verif/evidence/%s.json" % p,
                "replay_cmd_template": "./check %s --replay {path}" % p,
                "engine": "dsim",
                "level_claimed": {"category": "exploration", "text": c["text"], "design_ref": c["ref"]},
                "level_note": c["note"],
                "technique": c["technique"],
            })
    na = [{"property_id": p, "reason": NA.get(p, "check not built yet (work in progress; see DESIGN.md §8)")} for p in PROPS if p not in CLAIMS]
    m = {
        "version": 1,
        "setup_cmd": "./check selftest setup",
        "hooks": {"guard": "PYDSDL_VERIF", "enable": "no hooks in /repo: every seam is reached from outside (pathlib.Path._scandir, os.scandir, builtins.open, time.monotonic, os.chdir, PYTHONHASHSEED, sys.settrace)",
                  "baseline_off_cmd": "cd /repo && /venv/bin/python -m pytest -ra -q -p no:cacheprovider --timeout=900 --continue-on-collection-errors",
                  "source_commits": [], "add_only": True},
        "engines": [{"name": "dsim", "path": "/verif/dsim", "serves_properties": sorted(CLAIMS), "kind_free_text": "deterministic simulator: seeded scenario generator, per-hash-seed worker processes, fs/clock/channel seams, reference models, structural shrinker, replay"}],
        "checks": checks,
        "not_applicable": na,
        "notes": "Genuine defects repaired in /repo are listed in known_findings.json (fixed entries suppress nothing). History / usage / fault dimensions added after the independent seeded-change rounds (iterable and buffer kinds, handler kinds, mtime policy, pre-reads, in-place revisions, hostile clients, result freshness) are listed in DESIGN.md section 9.2; an exception raised inside the code under test while a check queries it is reported as a violation of the check's crash oracle. Host-process configuration is part of every schedule: DEBUG logging with a formatting handler and warnings-as-errors around library calls (a function of the scenario), one worker interpreter in four under python -O (a function of the recorded hash seed), checkout directories whose names hold glob / regex / shell metacharacters. Known findings (reported as KNOWN-FINDING, exit 0): F5 (C17), F7b (C10), F20 (C18).",
    }
    json.dump(m, open(os.path.join(HERE, "MANIFEST.json"), "w"), indent=1)
    print("claimed", len(checks), "not_applicable", len(na))

main()
