#!/usr/bin/env python3
"""Evaluate seeded breaking changes: tools/eval_seeded.py <dir-with-patch.diff-and-demo.py> [--checks C10,C19] [--tier quick]

For each directory: copy /repo's tracked files to a scratch directory outside /repo and /verif, apply patch.diff, run the
pinned test suite there, run the demonstration with and without the change, run the named checks (default: the property
named by the directory, e.g. C10-a -> C10) against the patched copy via DSIM_REPO, and print / store the outcome.
The scratch copy is removed afterwards. Nothing is ever applied to /repo itself.
"""
from __future__ import annotations
import json
import os
import shutil
import subprocess
import sys
import tempfile

VERIF = os.path.dirname(os.path.dirname(os.path.abspath(__file__)))
REPO = "/repo"
PY = "/venv/bin/python"


def sh(cmd, cwd=None, env=None, timeout=3000):
    p = subprocess.run(cmd, cwd=cwd, env=env, capture_output=True, text=True, timeout=timeout)
    return p.returncode, p.stdout + p.stderr


def evaluate(d: str, checks: list[str] | None, tier: str, run_suite: bool) -> dict:
    d = os.path.abspath(d)
    name = os.path.basename(d.rstrip("/"))
    prop = name.split("-")[0]
    out: dict = {"id": name, "property": prop}
    scratch = tempfile.mkdtemp(prefix="dsim-seed-", dir="/dev/shm" if os.path.isdir("/dev/shm") else None)
    try:
        copy = os.path.join(scratch, "repo")
        os.makedirs(copy)
        rc, files = sh(["git", "ls-files", "-z"], cwd=REPO)
        for f in files.split("\0"):
            if f:
                os.makedirs(os.path.dirname(os.path.join(copy, f)), exist_ok=True)
                shutil.copy2(os.path.join(REPO, f), os.path.join(copy, f))
        rc, o = sh(["patch", "-s", "-p1", "-i", os.path.join(d, "patch.diff")], cwd=copy)
        out["patch_applies"] = rc == 0
        if rc != 0:
            out["patch_error"] = o[-500:]
            return out
        if run_suite:
            rc, o = sh([PY, "-m", "pytest", "-q", "-p", "no:cacheprovider", "--timeout=900", "-x", "-n", "8"], cwd=copy)
            out["suite_passes"] = rc == 0
            out["suite_tail"] = o.strip().splitlines()[-1] if o.strip() else ""
        demo = os.path.join(d, "demo.py")
        if os.path.exists(demo):
            rc1, o1 = sh([PY, demo, copy], cwd=scratch, timeout=600)
            rc0, o0 = sh([PY, demo, REPO], cwd=scratch, timeout=600)
            out["demo_with_change"] = rc1
            out["demo_without_change"] = rc0
            out["demo_output"] = o1.strip()[-400:]
        env = dict(os.environ)
        env["DSIM_REPO"] = copy
        out["checks"] = {}
        for c in (checks or [prop]):
            rc, o = sh([os.path.join(VERIF, "check"), c, "--tier", tier], cwd=VERIF, env=env, timeout=6000)
            viol = [ln for ln in o.splitlines() if ln.startswith("VIOLATION") or ln.strip().startswith("oracle=") or ln.strip().startswith("detail:")]
            out["checks"][c] = {"exit": rc, "caught": rc == 1, "lines": [v[:300] for v in viol[:6]], "summary": o.strip().splitlines()[-1] if o.strip() else ""}
    finally:
        shutil.rmtree(scratch, ignore_errors=True)
    return out


def main() -> int:
    args = [a for a in sys.argv[1:] if not a.startswith("--")]
    checks = None
    tier = "quick"
    run_suite = True
    for a in sys.argv[1:]:
        if a.startswith("--checks="):
            checks = a.split("=", 1)[1].split(",")
        if a.startswith("--tier="):
            tier = a.split("=", 1)[1]
        if a == "--no-suite":
            run_suite = False
    for d in args:
        r = evaluate(d, checks, tier, run_suite)
        print(json.dumps(r, indent=1))
        with open(os.path.join(d, "eval.json"), "w") as f:
            json.dump(r, f, indent=1)
    return 0


if __name__ == "__main__":
    sys.exit(main())
