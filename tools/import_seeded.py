#!/usr/bin/env python3
"""tools/import_seeded.py /tmp/seeded_out/<ID> ... : copy an evaluated seeded change into /verif/seeded/<ID>/ with meta.json."""
import json, os, shutil, sys
VERIF = os.path.dirname(os.path.dirname(os.path.abspath(__file__)))
for d in sys.argv[1:]:
    d = d.rstrip("/")
    name = os.path.basename(d)
    ev = json.load(open(os.path.join(d, "eval.json")))
    dst = os.path.join(VERIF, "seeded", name)
    os.makedirs(dst, exist_ok=True)
    for f in ("patch.diff", "demo.py", "notes.md"):
        if os.path.exists(os.path.join(d, f)) and os.path.realpath(d) != os.path.realpath(dst):
            shutil.copy2(os.path.join(d, f), os.path.join(dst, f))
    notes = open(os.path.join(d, "notes.md")).read() if os.path.exists(os.path.join(d, "notes.md")) else ""
    meta = {
        "id": name, "breaks_property": ev["property"], "origin": "written by an independent sub-agent that saw only the property text (no access to /verif)",
        "needs_to_manifest": notes.strip(),
        "confirmed": {"patch_applies_to_repo_head": ev.get("patch_applies"), "pinned_suite_passes_with_change": ev.get("suite_passes"), "suite_tail": ev.get("suite_tail"),
                      "demo_exit_with_change": ev.get("demo_with_change"), "demo_exit_without_change": ev.get("demo_without_change")},
        "what_was_run": "tools/eval_seeded.py: scratch copy of /repo's tracked files + patch.diff; pytest -n 8 (pinned suite) in the copy; demo.py against the copy and against /repo; ./check <PROP> --tier quick with DSIM_REPO=<copy>",
        "checks": {c: {"caught": v["caught"], "exit": v["exit"], "first_lines": v["lines"][:3], "summary": v["summary"]} for c, v in ev.get("checks", {}).items()},
    }
    old = {}
    if os.path.exists(os.path.join(dst, "meta.json")):
        try:
            old = json.load(open(os.path.join(dst, "meta.json")))
        except Exception:
            old = {}
    if old.get("history"):
        meta["history"] = old["history"]
    json.dump(meta, open(os.path.join(dst, "meta.json"), "w"), indent=1)
    if os.path.realpath(d) == os.path.realpath(dst) and os.path.exists(os.path.join(dst, "eval.json")):
        os.remove(os.path.join(dst, "eval.json"))
    print(name, {c: v["caught"] for c, v in ev.get("checks", {}).items()})
