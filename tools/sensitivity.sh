#!/bin/sh
# Development-time sensitivity self-test: every edit under mutants/ is applied to a scratch copy of /repo and the quick
# check of the property named by the file prefix must report a VIOLATION (files containing "benign" must stay silent).
# usage: tools/sensitivity.sh [pattern]
cd "$(dirname "$0")/.." || exit 2
for m in mutants/${1:-*}.py; do
  p=$(basename "$m" | cut -d_ -f1)
  out=$(timeout 1200 tools/with_mutant.sh "$PWD/$m" ./check "$p" --tier quick --no-shrink 2>&1); code=$?
  case "$m" in *benign*) want=0 ;; *) want=1 ;; esac
  verdict=OK; [ "$code" -ne "$want" ] && verdict=UNEXPECTED
  echo "$verdict exit=$code want=$want $(basename "$m" .py) :: $(echo "$out" | grep -m1 'oracle=' | sed 's/^ *//' | cut -c1-120)"
done
