#!/bin/sh
# usage: tools/with_mutant.sh <patch-or-py-edit-file> <command...>
# Copies /repo's working tree to a scratch dir outside /repo and /verif, applies the change, runs the command with
# DSIM_REPO pointing at the copy, removes the copy.
set -e
SRC="${DSIM_REPO:-/repo}"
M="$1"; shift
D="$(mktemp -d /dev/shm/dsim-mut-XXXXXX)"
trap 'rm -rf "$D"' EXIT
mkdir -p "$D/repo"
(cd "$SRC" && git ls-files -z | xargs -0 cp --parents -t "$D/repo")
case "$M" in
  *.py) (cd "$D/repo" && /venv/bin/python "$M") ;;
  *) (cd "$D/repo" && patch -s -p1 < "$M") ;;
esac
DSIM_REPO="$D/repo" "$@"
