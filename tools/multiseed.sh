#!/bin/sh
# False-alarm hunt on the unchanged tree: every registered quick check under several VERIF_SEEDs. usage: tools/multiseed.sh 1 2 3 ...
cd "$(dirname "$0")/.." || exit 2
for sd in "$@"; do
  for p in $(python3 -c "import json; print(' '.join(c['property_id'] for c in json.load(open('MANIFEST.json'))['checks']))"); do
    out=$(VERIF_SEED=$sd timeout 1200 ./check "$p" --tier quick 2>&1); code=$?
    [ $code -ne 0 ] && echo "SEED $sd $p exit=$code :: $(echo "$out" | grep -E 'oracle=|HARNESS' | head -2 | tr '\n' ' ' | cut -c1-300)"
  done
  echo "seed $sd done"
done
