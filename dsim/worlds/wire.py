"""World X: writer / reader nodes (real pydsdl.serialize / deserialize over types read by the real front end from a
scratch namespace), a byte channel with faults, and the reference peer (model/refcodec.py) as the third party."""
from __future__ import annotations
import pydsdl
from ..model import types as T
from ..model.namespace import Universe
from .workspace import World


class Node:
    """One party: a set of composite types obtained by reading one revision of a workspace with the real front end."""

    def __init__(self, ws: dict, tag: str = "n"):
        self.ws = ws
        self.world = World({"ws": ws})
        self.uni = self.world.uni
        self.types: dict[str, object] = {}
        nroots = len(self.uni.roots)
        for ri in range(nroots):
            res = self.world.run_read({"op": "rn", "root": {"p": self.uni.roots[ri]["dir"]},
                                       "lookups": [{"p": self.uni.roots[x]["dir"]} for x in range(nroots) if x != ri], "key": None, "cwd": ""})
            if not res["ok"]:
                self.error = res["exc"]
                raise NodeError(res["exc"])
            for t in res["direct"]:
                self.types[str(t)] = t

    def sections(self):
        """Yields (key, section index, real serializable composite, model Sec) for every message / request / response."""
        for k, t in self.types.items():
            d = self.uni.defs[k]
            if T.is_service(d):
                yield k, 0, t.request_type, self.uni.res.sec(k, 0)
                yield k, 1, t.response_type, self.uni.res.sec(k, 1)
            else:
                yield k, 0, t, self.uni.res.sec(k, 0)

    def close(self) -> None:
        self.world.close()


class NodeError(Exception):
    pass


# ---- channel faults ----------------------------------------------------------------------------------------------------
def apply_fault(data: bytes, fault: list) -> bytes:
    k = fault[0]
    if k == "none":
        return data
    if k == "trunc_bytes":
        return data[: fault[1]]
    if k == "zeros":
        return data + bytes(fault[1])
    if k == "junk":
        return data + bytes.fromhex(fault[1])
    if k == "flip":
        if not data:
            return data
        i = fault[1] % (len(data) * 8)
        b = bytearray(data)
        b[i // 8] ^= 1 << (i % 8)
        return bytes(b)
    if k == "set_bits":  # overwrite n bits at position p with value v (targeted prefix / tag / header corruption)
        _, p, n, v = fault
        acc = int.from_bytes(data, "little")
        total = max(len(data) * 8, p + n)
        acc &= ~(((1 << n) - 1) << p)
        acc |= (v & ((1 << n) - 1)) << p
        return acc.to_bytes((total + 7) // 8, "little")
    if k == "random":
        return bytes.fromhex(fault[1])
    raise ValueError(k)
