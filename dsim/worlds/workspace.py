"""World W: a namespace tree on tmpfs + the real pydsdl reader, with the simulator owning enumeration order, cwd,
argument spelling, symlink aliases, file content between operations and the print handler."""
from __future__ import annotations
import os
import shutil
import sys
from pathlib import Path
import pydsdl
from ..env import fsseam
from ..model import types as T
from ..model.namespace import Universe
from ..model.render import render
from . import realcanon

_SCRATCH_BASE = "/dev/shm" if os.path.isdir("/dev/shm") and os.access("/dev/shm", os.W_OK) else "/tmp"
_counter = [0]
_HOME = os.getcwd()
_run = {"key": None, "dir": None}


def begin_run(key: str) -> None:
    """Scratch directories are a pure function of (PYTHONHASHSEED, scenario digest, world counter): absolute paths are
    hashed by the code under test (sets of Path), so exact replay needs identical paths. If another live process is using
    the same directory (same scenario, same hash seed, same moment) a pid-suffixed directory is used instead."""
    hs = os.environ.get("PYTHONHASHSEED", "x")
    base = os.path.join(_SCRATCH_BASE, "dsim", "h" + hs, key)
    lock = base + ".lock"
    os.makedirs(os.path.dirname(base), exist_ok=True)
    owner = None
    try:
        with open(lock) as f:
            owner = int(f.read().strip() or 0)
    except (OSError, ValueError):
        owner = None
    if owner and owner != os.getpid() and os.path.exists("/proc/%d" % owner):
        base = base + "-alt%d" % os.getpid()
        lock = base + ".lock"
    shutil.rmtree(base, ignore_errors=True)
    with open(lock, "w") as f:
        f.write(str(os.getpid()))
    _run["key"], _run["dir"], _run["lock"] = key, base, lock
    _counter[0] = 0


def end_run() -> None:
    if _run.get("dir"):
        try:
            os.chdir(_HOME)
        except OSError:
            pass
        shutil.rmtree(_run["dir"], ignore_errors=True)
        try:
            os.remove(_run["lock"])
        except OSError:
            pass
    _run["key"] = _run["dir"] = None


def scratch_root() -> str:
    if _run.get("dir"):
        return _run["dir"]
    return os.path.join(_SCRATCH_BASE, "dsim-%d" % os.getpid())


import logging as _logging


class _FormattingHandler(_logging.Handler):
    """What an application that lowered the log level has: a handler that formats every record (and drops the text)."""

    def emit(self, record):
        try:
            self.format(record)
        except Exception:
            pass


_FORMATTING_HANDLER = _FormattingHandler()


ODD_DIR_NAMES = [" [2]", "[stable]", "[!b]c", " (old)", "{a,b}", "*", "?", "%41", " +x", "~", "#1", "$HOME", "\u00e9t\u00e9", "a\\b", "'q'", ".d", "-n", "^a$", "a|b", "&"]


def host_env(debug_logging: bool, warnings_as_errors: bool):
    """The host application's process-wide configuration around a library call: logging lowered to DEBUG with a handler that
    formats every record, and / or warnings escalated to errors. Returns a context manager."""
    import contextlib
    import logging
    import warnings
    stack = contextlib.ExitStack()
    if warnings_as_errors:
        stack.enter_context(warnings.catch_warnings())
        warnings.simplefilter("error")
    if debug_logging:
        lg = logging.getLogger("pydsdl")
        old_state = (logging.root.manager.disable, lg.level, lg.propagate)
        logging.disable(logging.NOTSET)
        lg.setLevel(logging.DEBUG)
        lg.addHandler(_FORMATTING_HANDLER)
        lg.propagate = False

        def _restore():
            lg.removeHandler(_FORMATTING_HANDLER)
            lg.setLevel(old_state[1])
            lg.propagate = old_state[2]
            logging.disable(old_state[0])
        stack.callback(_restore)
    return stack


class HostedLibrary:
    """`pydsdl` as a client sees it whose process runs with the given configuration: attribute access is forwarded to the real
    module; serialize() / deserialize() run inside host_env()."""

    def __init__(self, debug_logging: bool, warnings_as_errors: bool):
        import pydsdl as _real
        self._real = _real
        self._env = (debug_logging, warnings_as_errors)

    def __getattr__(self, name):
        return getattr(self._real, name)

    def serialize(self, *a, **kw):
        with host_env(*self._env):
            return self._real.serialize(*a, **kw)

    def deserialize(self, *a, **kw):
        with host_env(*self._env):
            return self._real.deserialize(*a, **kw)


def hosted_library(ws: dict) -> HostedLibrary:
    import zlib
    from ..core.scenario import cjson
    h = zlib.crc32(b"host" + cjson(ws).encode("ascii"))
    return HostedLibrary(h % 4 == 0, (h >> 4) % 3 == 0)


class World:
    def __init__(self, scn: dict):
        self.scn = scn
        _counter[0] += 1
        # where the checkout lives is the user's business: every other workspace sits under a directory whose name holds characters
        # that mean something to glob / fnmatch / regular expressions / URL quoting / shells (all legal in a path)
        import zlib as _z
        from ..core.scenario import cjson as _cj
        odd = scn.get("odd_dir")
        if odd is None:
            hh = _z.crc32(b"dir" + _cj(scn["ws"]).encode("ascii"))
            odd = ODD_DIR_NAMES[(hh >> 3) % len(ODD_DIR_NAMES)] if hh % 2 else ""
        self.odd_dir = odd
        self.scratch = os.path.join(scratch_root(), "w%d%s" % (_counter[0], odd))
        if os.path.exists(self.scratch):
            shutil.rmtree(self.scratch)
        os.makedirs(self.scratch)
        self.scratch = os.path.realpath(self.scratch)
        self.uni = Universe(scn["ws"])
        import zlib
        from ..core.scenario import cjson
        self.mtime_policy = scn.get("mtime") or ["advance", "same", "back"][zlib.crc32(cjson(scn["ws"]).encode("ascii")) % 3]
        self.mtime_faults = 0
        self._mtimes: dict[str, int] = {}
        # process configuration the host application owns (a pure function of the workspace): the pydsdl logger at DEBUG with a
        # formatting handler, and warnings escalated to errors. Neither may change any result.
        h = zlib.crc32(b"env" + cjson(scn["ws"]).encode("ascii"))
        self.debug_logging = scn.get("debug_logging", h % 4 == 0)
        self.warnings_as_errors = scn.get("warnings_as_errors", (h >> 4) % 4 == 0)
        self.lmaps: dict[str, dict] = {}
        self.texts: dict[str, str] = {}
        self.prints: list[tuple[str, int, str]] = []
        self.open_logs: list[list[str]] = []
        self.shared_args: dict[str, tuple[list, list]] = {}
        self._home = _HOME
        self.build()

    # ---- construction ------------------------------------------------------------------------------------------
    def abs(self, rel: str) -> str:
        return os.path.join(self.scratch, rel)

    def write(self, rel: str, text: str) -> None:
        """Writes a file. When an existing file is REwritten, its modification time follows the scenario's mtime policy:
        "advance" (the kernel's new timestamp), "same" (the old timestamp is restored: coarse file-system timestamps, cp -p,
        rsync -t) or "back" (an older timestamp: a restored backup, a clock that jumped backwards)."""
        p = self.abs(rel)
        os.makedirs(os.path.dirname(p), exist_ok=True)
        old = self._mtimes.get(rel)  # also remembered across a remove + re-create of the same path
        # lone surrogates U+DC80..U+DCFF in the text stand for the raw bytes 0x80..0xFF (a file that is not valid UTF-8)
        with open(p, "w", encoding="utf-8", errors="surrogateescape", newline="") as f:
            f.write(text)
        if old is not None and self.mtime_policy != "advance":
            delta = 0 if self.mtime_policy == "same" else -10_000_000_000
            os.utime(p, ns=(old + delta, old + delta))
            self.mtime_faults += 1
        self._mtimes[rel] = os.stat(p).st_mtime_ns

    def build(self) -> None:
        fmts = self.scn.get("fmt", {})
        for r in self.uni.roots:
            os.makedirs(self.abs(r["dir"]), exist_ok=True)
        seen = set()
        for ri, d in self.uni.all:
            k = T.def_key(d)
            text, lmap = render(d, fmts.get(k))
            if k not in seen:
                self.lmaps[k] = lmap
                self.texts[k] = text
                seen.add(k)
            self.write(self.uni.file_of_def(ri, d), text)
        for rel, text in self.scn.get("extra_files", []):
            self.write(rel, text)
        for rel in self.scn.get("extra_dirs", []):
            os.makedirs(self.abs(rel), exist_ok=True)
        for alias, target in self.scn.get("symlinks", []):
            os.makedirs(os.path.dirname(self.abs(alias)), exist_ok=True)
            os.symlink(self.abs(target), self.abs(alias))

    def close(self) -> None:
        os.chdir(self._home)
        shutil.rmtree(self.scratch, ignore_errors=True)

    # ---- argument spelling -----------------------------------------------------------------------------------------
    def spell(self, arg, cwd_abs: str):
        if arg is None:
            return None
        if isinstance(arg, str):
            arg = {"p": arg}
        rel = arg["p"]
        st = arg.get("st", "abs")
        if st == "abs":
            s = self.abs(rel)
        elif st == "cwd":
            s = os.path.relpath(self.abs(rel), cwd_abs)
        elif st == "dd":
            a = self.abs(rel)
            s = os.path.join(os.path.dirname(a), os.path.basename(a), "..", os.path.basename(a))
        elif st == "dot":
            a = self.abs(rel)
            s = os.path.join(os.path.dirname(a), ".", os.path.basename(a)) + "/"
        elif st.startswith("ln"):
            alias, target = self.scn["symlinks"][int(st[2:] or 0)]
            if not (rel == target or rel.startswith(target + "/")):  # not an assert statement: workers may run under python -O
                raise AssertionError((rel, target))
            s = self.abs(alias + rel[len(target):])
        elif st == "lncwd":
            alias, target = self.scn["symlinks"][0]
            s = os.path.relpath(self.abs(alias + rel[len(target):]), cwd_abs)
        elif st == "name":
            s = os.path.basename(rel)
        elif st == "raw":
            s = rel
        else:
            raise ValueError(st)
        return s if arg.get("ty", "p") == "s" else Path(s)

    def spell_list(self, args, cwd_abs: str, share: str | None = None, kind: str | None = None):
        """share: a key under which the *same list object* (of unique Path objects) is handed to several calls of one run -
        callers do reuse their argument lists; the calls must neither mutate them nor depend on earlier calls.
        kind: the kind of iterable handed over (the API takes Iterable[Path | str]): list (default), tuple, set, frozenset,
        gen (generator, can be consumed once), iter, keys (dict view), deque."""
        if args is None:
            return None
        if isinstance(args, dict):
            return self.spell(args, cwd_abs)
        if kind and kind != "list" and share is None:
            items = [self.spell(a, cwd_abs) for a in args]
            if kind == "tuple":
                return tuple(items)
            if kind == "set":
                return set(items)
            if kind == "frozenset":
                return frozenset(items)
            if kind == "gen":
                return (x for x in items)
            if kind == "iter":
                return iter(items)
            if kind == "keys":
                return dict.fromkeys(items).keys()
            if kind == "deque":
                import collections
                return collections.deque(items)
            raise ValueError(kind)
        if share is not None:
            if share not in self.shared_args:
                lst = []
                for a in args:
                    p = Path(self.abs(a["p"] if isinstance(a, dict) else a))
                    if p not in lst:
                        lst.append(p)
                self.shared_args[share] = (lst, list(lst))
            return self.shared_args[share][0]
        return [self.spell(a, cwd_abs) for a in args]

    def mutated_shared_args(self) -> list[str]:
        out = []
        for k, (lst, snapshot) in self.shared_args.items():
            if lst != snapshot or len(lst) != len(snapshot) or any(type(x) is not type(y) for x, y in zip(lst, snapshot)):
                out.append("%s: %s -> %s" % (k, [self.rel(x) for x in snapshot], [self.rel(x) if isinstance(x, (str, Path)) else repr(x) for x in lst]))
        return out

    # ---- operations ------------------------------------------------------------------------------------------------
    def _handler(self, path, line, text) -> None:
        self.prints.append((str(path), line, text))

    def _make_handler(self, kind: str | None):
        """The print handler is 'any callable taking (path, line, text)': a bound method (default), a plain function, a
        functools.partial, or a callable object - including one whose truth value is False (an empty collecting container)."""
        sink = self.prints
        if kind in (None, "method"):
            return self._handler
        if kind == "function":
            def fn(path, line, text):
                sink.append((str(path), line, text))
            return fn
        if kind == "partial":
            import functools
            return functools.partial(lambda tag, path, line, text: sink.append((str(path), line, text)), "tag")
        if kind == "falsy_list":
            class CollectingList(list):  # empty list: bool() is False
                def __call__(self, path, line, text):
                    sink.append((str(path), line, text))
            return CollectingList()
        if kind in ("varargs_fn", "varargs_method", "varargs_partial"):
            # handlers that do not spell out three named parameters
            def record(*args):
                if len(args) == 3:
                    sink.append((str(args[0]), args[1], args[2]))
                else:
                    sink.append(("<handler called with %d arguments>" % len(args), args[0] if args else None, str(args[-1]) if args else ""))
            if kind == "varargs_fn":
                return lambda *a: record(*a)
            if kind == "varargs_method":
                class Sink:
                    def on_print(self, *args):
                        record(*args)
                return Sink().on_print
            import functools

            def tagged(tag, *rec):
                record(*rec)
            return functools.partial(tagged, "tag")
        if kind == "falsy_obj":
            class Collector:
                def __len__(self):
                    return 0
                def __call__(self, path, line, text):
                    sink.append((str(path), line, text))
            return Collector()
        raise ValueError(kind)

    def run_read(self, op: dict) -> dict:
        """Executes one read op against the real reader. Returns {"ok", "direct", "transitive"|None, "exc"}."""
        cwd_abs = self.abs(op.get("cwd", "")) if op.get("cwd") is not None else self.scratch
        os.makedirs(cwd_abs, exist_ok=True)
        os.chdir(cwd_abs)
        if not fsseam._state["installed"]:
            raise RuntimeError("file-system seams are not installed")
        fsseam.set_key(op.get("key"))
        self.prints = []
        log = fsseam.start_open_log(self.scratch)
        out: dict = {"ok": False, "direct": None, "transitive": None, "exc": None}
        handler = self._make_handler(op.get("handler_kind")) if op.get("handler", True) else None
        if op["op"] == "rn":
            kw = {}
            if "allow_coll" in op:
                kw["allow_root_namespace_name_collision"] = bool(op["allow_coll"])
            args = (self.spell(op["root"], cwd_abs), self.spell_list(op.get("lookups"), cwd_abs, op.get("share_lookups"), op.get("lk_kind")), handler,
                    bool(op.get("allow_unreg", False)))
            fn = pydsdl.read_namespace
        elif op["op"] == "rf":
            kw = {}
            args = (self.spell_list(op["files"], cwd_abs, None, op.get("files_kind")), self.spell_list(op.get("roots"), cwd_abs, op.get("share_roots"), op.get("roots_kind")),
                    self.spell_list(op.get("lookups"), cwd_abs, op.get("share_lookups"), op.get("lk_kind")), handler, bool(op.get("allow_unreg", False)))
            fn = pydsdl.read_files
        else:
            raise ValueError(op["op"])
        stack = host_env(self.debug_logging, self.warnings_as_errors)
        try:
            with stack:
                res = fn(*args, **kw)
            if op["op"] == "rn":
                out.update(ok=True, direct=res)
            else:
                out.update(ok=True, direct=res[0], transitive=res[1])
        except RecursionError as ex:
            out["exc"] = ex
        except Exception as ex:  # noqa: classified by the caller
            out["exc"] = ex
        finally:
            fsseam.set_key(None)
            self.open_logs.append(list(fsseam.stop_open_log()))
            os.chdir(self.scratch)
        out["prints"] = list(self.prints)
        return out

    def apply_edit(self, op: dict) -> None:
        k = op["op"]
        if k == "write":
            self.write(op["path"], op["text"] * int(op.get("repeat", 1)))
        elif k == "rm":
            os.remove(self.abs(op["path"]))
        elif k == "mv":
            os.makedirs(os.path.dirname(self.abs(op["to"])), exist_ok=True)
            os.rename(self.abs(op["path"]), self.abs(op["to"]))
        elif k == "mkdir":
            os.makedirs(self.abs(op["path"]), exist_ok=True)
        else:
            raise ValueError(k)

    # ---- observation helpers ---------------------------------------------------------------------------------------
    def rel(self, p) -> str:
        s = os.path.realpath(str(p))
        if s == self.scratch or s.startswith(self.scratch + os.sep):
            return s[len(self.scratch) + 1:]
        return s

    def canon_out(self, out: dict) -> dict:
        if not out["ok"]:
            return {"err": classify_exc(out["exc"])}
        c = realcanon.Canon(self.scratch)
        o = {"direct": [c.composite(t) for t in out["direct"]]}
        if out["transitive"] is not None:
            o["transitive"] = [c.composite(t) for t in out["transitive"]]
        return o


def classify_exc(ex: BaseException | None) -> str:
    if ex is None:
        return "none"
    if isinstance(ex, pydsdl.InvalidDefinitionError):
        return "IDE"
    if isinstance(ex, pydsdl.InternalError):
        return "Internal"
    if isinstance(ex, pydsdl.Error):
        return "Error"
    return "Other:" + type(ex).__name__


def exc_info(ex: BaseException | None) -> dict:
    if ex is None:
        return {}
    o = {"cls": type(ex).__name__, "cat": classify_exc(ex)}
    if isinstance(ex, pydsdl.Error):
        o["path"] = str(ex.path) if ex.path is not None else None
        o["line"] = ex.line
    return o
