"""World V helpers: generic canonical description of model objects; the peer interpreter (another PYTHONHASHSEED)."""
from __future__ import annotations
import json
import os
import pickle
import subprocess
import sys
import pydsdl
from . import realcanon
from ..core.scenario import digest


def strip_paths(c):
    if isinstance(c, dict):
        return {k: strip_paths(v) for k, v in c.items() if k not in ("src", "root")}
    if isinstance(c, list):
        return [strip_paths(x) for x in c]
    return c


def describe(o) -> object:
    c = realcanon.Canon(None)
    if isinstance(o, pydsdl.CompositeType):
        return ["composite", type(o).__name__, strip_paths(c.composite(o)), list(o.name_components), o.short_name, o.full_namespace, o.root_namespace]
    if isinstance(o, pydsdl.SerializableType):
        return ["type", type(o).__name__, str(o), strip_paths(c.type(o)), realcanon.bls_cheap(o.bit_length_set), o.alignment_requirement]
    if isinstance(o, pydsdl.Constant):
        return ["constant", o.name, str(o.data_type), strip_paths(c.type(o.data_type)), realcanon.canon_value(o.value), o.doc, str(o)]
    if isinstance(o, pydsdl.Attribute):
        return ["attribute", type(o).__name__, o.name, str(o.data_type), strip_paths(c.type(o.data_type)), o.doc, str(o)]
    if isinstance(o, pydsdl.Set):
        return ["set", sorted(json.dumps(realcanon.canon_value(x), sort_keys=True) for x in o), o.element_type.__name__]
    if isinstance(o, pydsdl.Primitive):
        return ["primitive", type(o).__name__, realcanon.canon_value(o), str(o)]
    if isinstance(o, pydsdl.BitLengthSet):
        return ["bls", realcanon.bls_cheap(o), str(o)]
    return ["other", type(o).__name__]


class Peer:
    """A second interpreter started under another PYTHONHASHSEED; speaks one JSON line per request."""

    def __init__(self) -> None:
        self.p = None

    def start(self) -> None:
        env = dict(os.environ)
        mine = env.get("PYTHONHASHSEED", "0")
        env["PYTHONHASHSEED"] = str((int(mine) if mine.isdigit() else 7) * 31 % 4000000 + 17)
        self.hashseed = env["PYTHONHASHSEED"]
        self.p = subprocess.Popen([sys.executable, "-m", "dsim.peer"], stdin=subprocess.PIPE, stdout=subprocess.PIPE, stderr=subprocess.DEVNULL,
                                  env=env, text=True)

    def ask(self, blob: bytes) -> dict:
        if self.p is None or self.p.poll() is not None:
            self.start()
        assert self.p and self.p.stdin and self.p.stdout
        self.p.stdin.write(json.dumps({"pickle": blob.hex()}) + "\n")
        self.p.stdin.flush()
        line = self.p.stdout.readline()
        if not line:
            raise RuntimeError("peer interpreter died")
        return json.loads(line)

    def close(self) -> None:
        if self.p is not None:
            try:
                self.p.stdin.close()
                self.p.wait(5)
            except Exception:
                self.p.kill()
            self.p = None
