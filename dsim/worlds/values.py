"""World V helpers: generic canonical description of model objects; the peer interpreter (another PYTHONHASHSEED)."""
from __future__ import annotations
import json
import os
import pickle
import subprocess
import sys
import pydsdl
from . import realcanon
from ..core.scenario import digest


def strip_paths(c):
    if isinstance(c, dict):
        return {k: strip_paths(v) for k, v in c.items() if k not in ("src", "root")}
    if isinstance(c, list):
        return [strip_paths(x) for x in c]
    return c


def describe(o) -> object:
    c = realcanon.Canon(None)
    if isinstance(o, pydsdl.CompositeType):
        return ["composite", type(o).__name__, strip_paths(c.composite(o)), list(o.name_components), o.short_name, o.full_namespace, o.root_namespace]
    if isinstance(o, pydsdl.SerializableType):
        return ["type", type(o).__name__, str(o), strip_paths(c.type(o)), realcanon.bls_cheap(o.bit_length_set), o.alignment_requirement]
    if isinstance(o, pydsdl.Constant):
        return ["constant", o.name, str(o.data_type), strip_paths(c.type(o.data_type)), realcanon.canon_value(o.value), o.doc, str(o)]
    if isinstance(o, pydsdl.Attribute):
        return ["attribute", type(o).__name__, o.name, str(o.data_type), strip_paths(c.type(o.data_type)), o.doc, str(o)]
    if isinstance(o, pydsdl.Set):
        return ["set", sorted(json.dumps(realcanon.canon_value(x), sort_keys=True) for x in o), o.element_type.__name__]
    if isinstance(o, pydsdl.Primitive):
        return ["primitive", type(o).__name__, realcanon.canon_value(o), str(o)]
    if isinstance(o, pydsdl.BitLengthSet):
        return ["bls", realcanon.bls_cheap(o), str(o)]
    return ["other", type(o).__name__]


CONTAINERS = ["list", "tuple", "gen", "iter", "map", "filter"]


def _container(items: list, kind: str):
    if kind == "list":
        return list(items)
    if kind == "tuple":
        return tuple(items)
    if kind == "gen":
        return (a for a in items)
    if kind == "iter":
        return iter(list(items))
    if kind == "map":
        return map(lambda a: a, items)
    if kind == "filter":
        return filter(lambda a: True, items)
    raise ValueError(kind)


def rebuild(o, kind: str = "list", interleave: bool = False):
    """Re-creates a model object through its *public constructor* from its own public accessors, handing the attribute
    collection over as the given kind of iterable (the signatures say Iterable[Attribute]). Returns (new object, the
    argument object that was handed over or None). Services, primitives: rebuilt from their parts."""
    if isinstance(o, pydsdl.ServiceType):
        rq, _ = rebuild(o.request_type, kind, interleave)
        rs, _ = rebuild(o.response_type, kind, interleave)
        return pydsdl.ServiceType(rq, rs, o.fixed_port_id), None
    if isinstance(o, pydsdl.DelimitedType):
        inner, arg = rebuild(o.inner_type, kind, interleave)
        return pydsdl.DelimitedType(inner, o.extent), arg
    if isinstance(o, (pydsdl.StructureType, pydsdl.UnionType)):
        attrs = list(o.attributes)
        if interleave:
            # declaration order with constants BETWEEN the fields (the constructors take the attributes in any order)
            fs = [a for a in attrs if isinstance(a, pydsdl.Field)]
            cs = [a for a in attrs if not isinstance(a, pydsdl.Field)]
            attrs = []
            while fs or cs:
                if fs:
                    attrs.append(fs.pop(0))
                if cs:
                    attrs.append(cs.pop(0))
        arg = _container(attrs, kind)
        new = type(o)(name=o.full_name, version=o.version, attributes=arg, deprecated=o.deprecated, fixed_port_id=o.fixed_port_id,
                      source_file_path=o.source_file_path, has_parent_service=o.has_parent_service, doc=o.doc)
        return new, arg
    if isinstance(o, pydsdl.ArrayType):
        return type(o)(o.element_type, o.capacity), None
    if isinstance(o, pydsdl.VoidType):
        return pydsdl.VoidType(o.bit_length), None
    if isinstance(o, pydsdl.BooleanType):
        return pydsdl.BooleanType(), None
    if isinstance(o, (pydsdl.ByteType, pydsdl.UTF8Type)):
        return type(o)(), None
    if isinstance(o, pydsdl.ArithmeticType):
        return type(o)(o.bit_length, o.cast_mode), None
    raise TypeError(type(o).__name__)


def harvest(types: dict) -> list:
    """(key, object) pairs of everything reachable from a dict {str(type): composite}: composites, request / response, inner
    types, attributes, their types, array elements, constant values, bit length sets, a few expression values."""
    objs = []
    for k, t in types.items():
        objs.append((k, t))
        parts = [t.request_type, t.response_type] if isinstance(t, pydsdl.ServiceType) else [t]
        for pi, p in enumerate(parts):
            if isinstance(t, pydsdl.ServiceType):
                objs.append(("%s/p%d" % (k, pi), p))
            if isinstance(p, pydsdl.DelimitedType):
                objs.append(("%s/p%d/inner" % (k, pi), p.inner_type))
            for ai, at in enumerate(p.attributes):
                objs.append(("%s/p%d/a%d" % (k, pi, ai), at))
                objs.append(("%s/p%d/a%d/t" % (k, pi, ai), at.data_type))
                if isinstance(at.data_type, pydsdl.ArrayType):
                    objs.append(("%s/p%d/a%d/t/e" % (k, pi, ai), at.data_type.element_type))
                if isinstance(at, pydsdl.Constant):
                    objs.append(("%s/p%d/a%d/v" % (k, pi, ai), at.value))
            objs.append(("%s/p%d/bls" % (k, pi), p.bit_length_set))
    objs.append(("expr/set", pydsdl.Set([pydsdl.Rational(1), pydsdl.Rational(3), pydsdl.Rational(-5)])))
    objs.append(("expr/sset", pydsdl.Set([pydsdl.String("a"), pydsdl.String("bb"), pydsdl.String("ccc"), pydsdl.String("dd")])))
    objs.append(("expr/str", pydsdl.String("héllo")))
    objs.append(("expr/bool", pydsdl.Boolean(True)))
    return objs


def read_all(dirs: list) -> dict:
    """{str(type): composite} of every root directory in dirs, each read with the others as lookups (as World-X nodes do)."""
    types = {}
    for i, d in enumerate(dirs):
        for t in pydsdl.read_namespace(d, [x for j, x in enumerate(dirs) if j != i]):
            types[str(t)] = t
    return types


class Peer:
    """A second interpreter started under another PYTHONHASHSEED; speaks one JSON line per request."""

    def __init__(self) -> None:
        self.p = None

    def start(self) -> None:
        env = dict(os.environ)
        mine = env.get("PYTHONHASHSEED", "0")
        env["PYTHONHASHSEED"] = str((int(mine) if mine.isdigit() else 7) * 31 % 4000000 + 17)
        self.hashseed = env["PYTHONHASHSEED"]
        self.p = subprocess.Popen([sys.executable, "-m", "dsim.peer"], stdin=subprocess.PIPE, stdout=subprocess.PIPE, stderr=subprocess.DEVNULL,
                                  env=env, text=True)

    def ask(self, blob: bytes, key: str | None = None, dirs: list | None = None) -> dict:
        """key / dirs: the peer additionally reads the namespace directories itself (under its own hash seed), harvests the
        object with that key and compares the unpickled object with it (==, hash, dict lookup)."""
        if self.p is None or self.p.poll() is not None:
            self.start()
        if not (self.p and self.p.stdin and self.p.stdout):  # not an assert statement: workers may run under python -O
            raise AssertionError('self.p and self.p.stdin and self.p.stdout')
        self.p.stdin.write(json.dumps({"pickle": blob.hex(), "key": key, "dirs": dirs}) + "\n")
        self.p.stdin.flush()
        line = self.p.stdout.readline()
        if not line:
            raise RuntimeError("peer interpreter died")
        return json.loads(line)

    def close(self) -> None:
        if self.p is not None:
            try:
                self.p.stdin.close()
                self.p.wait(5)
            except Exception:
                self.p.kill()
            self.p = None
