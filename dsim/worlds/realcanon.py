"""Canonical structural forms of *real* pydsdl objects, and matching of real objects against the abstract model.

Only the public API of pydsdl is used (classes re-exported by the package, documented attributes). Exception text,
repr() and private attributes are never looked at, so refactors of names / messages do not raise alarms.
"""
from __future__ import annotations
import os
from fractions import Fraction
import pydsdl
from ..core.scenario import digest
from ..model import types as T
from ..model import blsref as B


def bls_cheap(b) -> dict:
    return {"min": b.min, "max": b.max, "m64": sorted(set(b % 64))}


def canon_value(v) -> object:
    if isinstance(v, pydsdl.Boolean):
        return bool(v.native_value)
    if isinstance(v, pydsdl.Rational):
        f = Fraction(v.native_value)
        return [f.numerator, f.denominator]
    if isinstance(v, pydsdl.String):
        return {"str": v.native_value}
    return {"other": type(v).__name__}


class Canon:
    """One canonicalisation pass (memoises nested composites by identity)."""

    def __init__(self, scratch: str | None = None):
        self.scratch = os.path.realpath(scratch) if scratch else None
        self.memo: dict[int, dict] = {}

    def path(self, p) -> str:
        s = os.path.realpath(str(p))
        if self.scratch and (s == self.scratch or s.startswith(self.scratch + os.sep)):
            return "$R" + s[len(self.scratch):]
        return s

    def type(self, t) -> object:
        if isinstance(t, pydsdl.CompositeType):
            c = self.composite(t)
            return {"ref": str(t), "h": digest(c)}
        if isinstance(t, pydsdl.FixedLengthArrayType):
            return {"arr": self.type(t.element_type), "n": t.capacity}
        if isinstance(t, pydsdl.VariableLengthArrayType):
            return {"var": self.type(t.element_type), "n": t.capacity, "lw": t.length_field_type.bit_length}
        if isinstance(t, pydsdl.VoidType):
            return {"void": t.bit_length}
        if isinstance(t, pydsdl.PrimitiveType):
            return {"prim": type(t).__name__, "bits": t.bit_length, "cast": t.cast_mode.name}
        return {"unknown": type(t).__name__}

    def attrs(self, t) -> list:
        out = []
        for a in t.attributes:
            if isinstance(a, pydsdl.PaddingField):
                out.append(["p", self.type(a.data_type), a.doc])
            elif isinstance(a, pydsdl.Constant):
                out.append(["c", a.name, self.type(a.data_type), canon_value(a.value), a.doc])
            else:
                out.append(["f", a.name, self.type(a.data_type), a.doc])
        return out

    def composite(self, t) -> dict:
        if id(t) in self.memo:
            return self.memo[id(t)]
        c: dict = {
            "name": t.full_name, "ver": [t.version.major, t.version.minor], "port": t.fixed_port_id,
            "dep": bool(t.deprecated), "doc": t.doc, "src": self.path(t.source_file_path),
            "root": self.path(t.source_file_path_to_root),
        }
        if isinstance(t, pydsdl.ServiceType):
            c["kind"] = "service"
            c["req"] = self.composite(t.request_type)
            c["rsp"] = self.composite(t.response_type)
        else:
            inner = t.inner_type
            c["kind"] = "union" if isinstance(inner, pydsdl.UnionType) else "struct"
            c["delimited"] = isinstance(t, pydsdl.DelimitedType)
            c["extent"] = t.extent
            c["align"] = t.alignment_requirement
            c["bls"] = bls_cheap(t.bit_length_set)
            if c["delimited"]:
                c["inner_bls"] = bls_cheap(inner.bit_length_set)
                c["hw"] = t.delimiter_header_type.bit_length
            if c["kind"] == "union":
                c["tw"] = inner.tag_field_type.bit_length
            c["attrs"] = self.attrs(t)
            c["svc"] = bool(t.has_parent_service)
        self.memo[id(t)] = c
        return c


def canon_list(types, scratch: str | None) -> list:
    c = Canon(scratch)
    return [c.composite(t) for t in types]


def ident(t) -> list:
    return [t.full_name, t.version.major, t.version.minor]


# ---- matching against the abstract model ---------------------------------------------------------------------------
PRIM_CLASS = {"bool": "BooleanType", "u": "UnsignedIntegerType", "i": "SignedIntegerType", "f": "FloatType",
              "byte": "ByteType", "utf8": "UTF8Type"}


class _TooExpensive(BaseException):
    pass


def safe_expand(bls, max_steps: int = 400000):
    """set(bls) under a step budget (traced line events in the implementation's bit-length-set code). Returns None if
    the implementation needs more steps than that (numerical expansion is documented as potentially combinatorial; the
    estimate-based guards are not exact). Never part of an oracle: an un-expandable set is simply compared symbolically."""
    import sys
    count = [0]
    prev = sys.gettrace()

    def tracer(frame, event, arg):
        if "_bit_length_set" not in frame.f_code.co_filename:
            return None
        return local

    def local(frame, event, arg):
        if event == "line":
            count[0] += 1
            if count[0] > max_steps:
                raise _TooExpensive()
        return local
    if prev is not None:
        return set(bls)  # another tracer is active (C16): do not interfere
    sys.settrace(tracer)
    try:
        return set(bls)
    except _TooExpensive:
        return None
    finally:
        sys.settrace(None)


def _cheap_for_sut(node: B.Node) -> bool:
    """Enumerating a set makes the implementation under test run its own numerical self-check (residues for every divisor
    1..64), which is combinatorial for repetitions of sub-byte elements: estimated here, never part of an oracle."""
    from ..checks.c01 import est_cost
    return max(est_cost(node, d) for d in (64, 63, 60, 56, 48, 32, 7)) <= 100000


class Matcher:
    def __init__(self, res: T.Resolver, explicit_limit: int = 3000):
        self.res = res
        self.limit = explicit_limit
        self.bad: list[str] = []
        self._seen: set[tuple[int, str]] = set()

    def err(self, where: str, what: str) -> None:
        if len(self.bad) < 20:
            self.bad.append("%s: %s" % (where, what))

    def bls(self, where: str, node: B.Node, real) -> None:
        if real.min != node.lo or real.max != node.hi:
            self.err(where, "min/max %d/%d, model %d/%d" % (real.min, real.max, node.lo, node.hi))
            return
        for m in (8, 32, 64):
            got = set(real % m)
            if got != node.mod(m):
                self.err(where, "residues mod %d %s, model %s" % (m, sorted(got), sorted(node.mod(m))))
                return
        if real.fixed_length != (node.lo == node.hi):
            self.err(where, "fixed_length")
        if node.work() <= self.limit and _cheap_for_sut(node):
            exp = node.expand()
            got2 = safe_expand(real)
            if got2 is not None and got2 != set(exp):
                self.err(where, "explicit set differs: extra %s missing %s" % (sorted(got2 - exp)[:5], sorted(exp - got2)[:5]))

    def type(self, where: str, t: list, real, docs: bool = True) -> None:
        k = t[0]
        if k == "ref":
            if not isinstance(real, pydsdl.CompositeType) or isinstance(real, pydsdl.ServiceType):
                return self.err(where, "expected composite, got %s" % type(real).__name__)
            key = T.key_of(t[1], t[2], t[3])
            if str(real) != key:
                return self.err(where, "resolved to %s, model %s" % (real, key))
            self.message(where + ">" + key, key, real, docs=docs)
            return
        if k in ("arr", "var"):
            cls = pydsdl.FixedLengthArrayType if k == "arr" else pydsdl.VariableLengthArrayType
            if type(real) is not cls:
                return self.err(where, "expected %s, got %s" % (cls.__name__, type(real).__name__))
            if real.capacity != t[2]:
                self.err(where, "capacity %d, model %d" % (real.capacity, t[2]))
            if k == "var" and real.length_field_type.bit_length != T.prefix_width(t[2]):
                self.err(where, "length prefix %d, model %d" % (real.length_field_type.bit_length, T.prefix_width(t[2])))
            if real.alignment_requirement != T.align(self.res, t):
                self.err(where, "alignment")
            self.type(where + "[]", t[1], real.element_type, docs=docs)
            self.bls(where, T.bls(self.res, t), real.bit_length_set)
            if str(real) != T.type_str(t):
                self.err(where, "str %r, model %r" % (str(real), T.type_str(t)))
            return
        if k == "void":
            if type(real) is not pydsdl.VoidType or real.bit_length != t[1]:
                self.err(where, "expected void%d, got %s" % (t[1], real))
            return
        if type(real).__name__ != PRIM_CLASS[k]:
            return self.err(where, "expected %s, got %s" % (PRIM_CLASS[k], type(real).__name__))
        if real.bit_length != T.bits_of(t):
            self.err(where, "bit length %d, model %d" % (real.bit_length, T.bits_of(t)))
        want_cast = "TRUNCATED" if (k in ("byte", "utf8") or (k in ("u", "f") and t[2] == "t")) else "SATURATED"
        if real.cast_mode.name != want_cast:
            self.err(where, "cast mode %s, model %s" % (real.cast_mode.name, want_cast))
        if real.alignment_requirement != 1:
            self.err(where, "alignment")
        if set(real.bit_length_set) != {T.bits_of(t)}:
            self.err(where, "bit length set")
        if str(real) != T.type_str(t):
            self.err(where, "str %r, model %r" % (str(real), T.type_str(t)))

    def section(self, where: str, sec: T.Sec, real, docs: bool, hdr: str | None) -> None:
        inner = real.inner_type
        want_cls = pydsdl.UnionType if sec.union else pydsdl.StructureType
        if type(inner) is not want_cls:
            self.err(where, "expected %s, got %s" % (want_cls.__name__, type(inner).__name__))
            return
        if isinstance(real, pydsdl.DelimitedType) == sec.sealed:
            self.err(where, "sealing: model sealed=%s, got %s" % (sec.sealed, type(real).__name__))
            return
        if real.extent != sec.extent:
            self.err(where, "extent %d, model %s" % (real.extent, sec.extent))
        if real.alignment_requirement != 8:
            self.err(where, "alignment %d" % real.alignment_requirement)
        self.bls(where + ".bls", sec.node(), real.bit_length_set)
        if not sec.sealed:
            self.bls(where + ".inner", sec.inner, inner.bit_length_set)
            if real.delimiter_header_type.bit_length != T.HEADER_WIDTH:
                self.err(where, "delimiter header width")
        if sec.union and inner.tag_field_type.bit_length != T.tag_width(len(sec.fields)):
            self.err(where, "tag width %d" % inner.tag_field_type.bit_length)
        rf = real.fields
        if len(rf) != len(sec.fields):
            self.err(where, "fields: %s, model %s" % ([f.name for f in rf], [n for n, _ in sec.fields]))
        else:
            for (n, t), f in zip(sec.fields, rf):
                if (n or "") != f.name:
                    self.err(where, "field order/name: got %r, model %r" % (f.name, n))
                    continue
                if n is None and not isinstance(f, pydsdl.PaddingField):
                    self.err(where, "padding expected")
                self.type(where + "." + (n or "<pad>"), t, f.data_type, docs=docs)
        rc = real.constants
        if [c.name for c in rc] != [n for n, _, _ in sec.consts]:
            self.err(where, "constants: %s, model %s" % ([c.name for c in rc], [n for n, _, _ in sec.consts]))
        else:
            for (n, t, v), c in zip(sec.consts, rc):
                self.type(where + "." + n, t, c.data_type)
                cv = canon_value(c.value)
                mv = v if isinstance(v, bool) else list(v)
                if cv != mv:
                    self.err(where + "." + n, "value %s, model %s" % (cv, mv))
        # attributes = fields then constants
        ra = real.attributes
        if [a.name for a in ra] != [f.name for f in rf] + [c.name for c in rc]:
            self.err(where, "attributes is not fields + constants")
        if list(inner.attributes) != list(ra):
            self.err(where, "inner attributes differ")
        if docs:
            want_hdr = hdr or ""
            if real.doc != want_hdr:
                self.err(where, "doc %r, model %r" % (real.doc, want_hdr))
            fi = 0
            ci = 0
            for it in sec.d["secs"][sec_index(sec)]["items"]:
                if it[0] == "f":
                    want = it[3] if len(it) > 3 and it[3] else ""
                    got = rf[fi].doc if fi < len(rf) else None
                    fi += 1
                elif it[0] == "p":
                    want = it[2] if len(it) > 2 and it[2] else ""
                    got = rf[fi].doc if fi < len(rf) else None
                    fi += 1
                elif it[0] == "c":
                    want = it[5] if len(it) > 5 and it[5] else ""
                    got = rc[ci].doc if ci < len(rc) else None
                    ci += 1
                else:
                    continue
                if got is not None and got != want:
                    self.err(where, "doc of %s: %r, model %r" % (it[2] if it[0] != "p" else "<pad>", got, want))

    def message(self, where: str, key: str, real, docs: bool = True) -> None:
        if (id(real), key) in self._seen:
            return
        self._seen.add((id(real), key))
        d = self.res.defs[key]
        if str(real) != key:
            return self.err(where, "identity %s, model %s" % (real, key))
        if real.fixed_port_id != d.get("port"):
            self.err(where, "port %s, model %s" % (real.fixed_port_id, d.get("port")))
        if bool(real.deprecated) != bool(d.get("dep")):
            self.err(where, "deprecated")
        if T.is_service(d):
            if not isinstance(real, pydsdl.ServiceType):
                return self.err(where, "expected service")
            for si, part in enumerate((real.request_type, real.response_type)):
                sec = self.res.sec(key, si)
                self.section(where + (".req" if si == 0 else ".rsp"), sec, part, docs, d["secs"][si].get("hdr"))
                if not part.has_parent_service:
                    self.err(where, "has_parent_service")
            if real.doc != (d["secs"][0].get("hdr") or "") and docs:
                self.err(where, "service doc")
        else:
            if isinstance(real, pydsdl.ServiceType):
                return self.err(where, "expected message")
            self.section(where, self.res.sec(key, 0), real, docs, d["secs"][0].get("hdr"))


def sec_index(sec: T.Sec) -> int:
    for i in (0, 1):
        if sec.res._sec_cache.get((T.def_key(sec.d), i)) is sec:
            return i
    return 0


def hostile_client(types) -> int:
    """A client that obtained the list-valued accessors of the given composites earlier and edited its copies in place
    (sorted, filtered, concatenated): the library's later answers about the same type objects must not depend on that.
    Returns the number of lists modified."""
    n = 0
    for t in types:
        parts = [t.request_type, t.response_type] if isinstance(t, pydsdl.ServiceType) else [t]
        for p0 in parts:
            for obj in (p0, getattr(p0, "inner_type", p0)):
                for acc in ("fields", "fields_except_padding", "attributes", "constants"):
                    try:
                        lst = getattr(obj, acc)
                    except Exception:
                        continue
                    if isinstance(lst, list):
                        lst.reverse()
                        lst.extend(lst[:1])
                        if len(lst) > 1:
                            lst.pop(0)
                        n += 1
    return n
