"""Peer interpreter for World V: started under a different PYTHONHASHSEED, unpickles model objects, describes them,
checks the local ==/hash contract and pickles them back."""
from __future__ import annotations
import json
import os
import pickle
import sys


def main() -> None:
    sys.path.insert(0, os.environ.get("DSIM_REPO", "/repo"))
    import logging
    logging.disable(logging.CRITICAL)
    from dsim.worlds.values import describe, harvest, read_all
    from dsim.core.scenario import digest
    fresh_cache: dict = {"dirs": None, "objs": {}}
    for line in sys.stdin:
        line = line.strip()
        if not line:
            continue
        try:
            req = json.loads(line)
            obj = pickle.loads(bytes.fromhex(req["pickle"]))
            twin = pickle.loads(bytes.fromhex(req["pickle"]))
            out = {"ok": True, "digest": digest(describe(obj)), "str": str(obj), "eq_self": bool(obj == obj), "eq_twin": bool(obj == twin),
                   "hash_twin": hash(obj) == hash(twin), "repickle": pickle.dumps(obj).hex(), "hashseed": os.environ.get("PYTHONHASHSEED")}
            if req.get("dirs") and req.get("key"):
                # an equal object built *here* (never hashed, never pickled, another hash seed): the unpickled object must be
                # equal to it, hash like it and be found by it in a dict / set
                if fresh_cache["dirs"] != req["dirs"]:
                    fresh_cache["dirs"] = req["dirs"]
                    fresh_cache["objs"] = dict(harvest(read_all(req["dirs"])))
                fresh = fresh_cache["objs"].get(req["key"])
                if fresh is not None:
                    out["fresh"] = {"eq": bool(obj == fresh) and bool(fresh == obj), "hash": hash(obj) == hash(fresh),
                                    "lookup": {fresh: 1}.get(obj) == 1 and (obj in {fresh}) and (fresh in {obj})}
        except Exception as ex:  # reported to the worker, which decides
            out = {"ok": False, "error": "%s: %s" % (type(ex).__name__, ex)}
        sys.stdout.write(json.dumps(out) + "\n")
        sys.stdout.flush()


if __name__ == "__main__":
    main()
