"""Peer interpreter for World V: started under a different PYTHONHASHSEED, unpickles model objects, describes them,
checks the local ==/hash contract and pickles them back."""
from __future__ import annotations
import json
import os
import pickle
import sys


def main() -> None:
    sys.path.insert(0, os.environ.get("DSIM_REPO", "/repo"))
    import logging
    logging.disable(logging.CRITICAL)
    from dsim.worlds.values import describe
    from dsim.core.scenario import digest
    for line in sys.stdin:
        line = line.strip()
        if not line:
            continue
        try:
            req = json.loads(line)
            obj = pickle.loads(bytes.fromhex(req["pickle"]))
            twin = pickle.loads(bytes.fromhex(req["pickle"]))
            out = {"ok": True, "digest": digest(describe(obj)), "str": str(obj), "eq_self": bool(obj == obj), "eq_twin": bool(obj == twin),
                   "hash_twin": hash(obj) == hash(twin), "repickle": pickle.dumps(obj).hex(), "hashseed": os.environ.get("PYTHONHASHSEED")}
        except Exception as ex:  # reported to the worker, which decides
            out = {"ok": False, "error": "%s: %s" % (type(ex).__name__, ex)}
        sys.stdout.write(json.dumps(out) + "\n")
        sys.stdout.flush()


if __name__ == "__main__":
    main()
