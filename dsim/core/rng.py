"""One integer decides everything: named sub-streams derived from VERIF_SEED by hashing.

Only generators draw from these streams. Executors, oracles and logging never do.
"""
from __future__ import annotations
import hashlib
import random


def derive(*parts: object) -> int:
    h = hashlib.sha256(repr(parts).encode("utf-8")).digest()
    return int.from_bytes(h[:8], "big")


def stream(*parts: object) -> random.Random:
    return random.Random(derive(*parts))


def keyed_order(key: object, names: list[str]) -> list[str]:
    """A permutation of names that is a pure function of (key, names) - used for directory enumeration."""
    return sorted(names, key=lambda n: hashlib.sha256(repr((key, n)).encode("utf-8")).digest())
