"""Scenario files (the replay unit), canonical JSON and digests."""
from __future__ import annotations
import hashlib
import json
from fractions import Fraction
from typing import Any


def _default(o: Any) -> Any:
    if isinstance(o, Fraction):
        return {"$frac": [o.numerator, o.denominator]}
    if isinstance(o, (set, frozenset)):
        return {"$set": sorted(_default_key(x) for x in o)}
    if isinstance(o, bytes):
        return {"$hex": o.hex()}
    if isinstance(o, tuple):
        return list(o)
    raise TypeError("not canonicalisable: %r" % type(o))


def _default_key(x: Any) -> Any:
    return x


def cjson(obj: Any) -> str:
    """Canonical JSON: sorted keys, no whitespace, deterministic for the same object."""
    return json.dumps(obj, sort_keys=True, separators=(",", ":"), default=_default, ensure_ascii=True)


def digest(obj: Any) -> str:
    return hashlib.sha256(cjson(obj).encode("ascii")).hexdigest()[:20]


def load(path: str) -> dict:
    with open(path, "r", encoding="utf-8") as f:
        return json.load(f)


def save(path: str, obj: Any) -> None:
    with open(path, "w", encoding="utf-8") as f:
        json.dump(obj, f, sort_keys=True, indent=1, default=_default)
        f.write("\n")
