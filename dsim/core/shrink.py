"""Structural delta-debugging over scenario JSON.

A candidate is kept iff executing it (fresh executor process, recorded hash seed) still fails the *same oracle id*.
Candidates that make the executor raise a harness error (structurally invalid scenario) are simply rejected.
Expected values are never stored in scenarios (the reference model recomputes them), so every syntactically valid
reduction is again a meaningful test.
"""
from __future__ import annotations
import copy
import time

_LIST_KEYS_OK = {"tail", "lead", "lookups", "files", "roots", "ops", "defs", "items", "symlinks", "extra_files",
                 "extra_dirs", "msgs", "faults", "steps", "values", "secs_extra", "order"}
_DICT_KEYS_DROP = {"fmt", "blanks", "orphans"}


def _paths(node, path=()):
    """Yield (path, kind) for every reducible place."""
    if isinstance(node, dict):
        for k in sorted(node):
            v = node[k]
            if isinstance(v, list) and (k in _LIST_KEYS_OK or (v and all(isinstance(e, (dict, list)) for e in v))):
                if k not in ("secs",):
                    yield path + (k,), "list"
            if isinstance(v, dict) and (k in _DICT_KEYS_DROP or path and path[-1] in _DICT_KEYS_DROP):
                yield path + (k,), "dictkeys"
            yield from _paths(v, path + (k,))
    elif isinstance(node, list):
        for i, v in enumerate(node):
            if isinstance(v, (dict, list)):
                yield from _paths(v, path + (i,))


def _get(node, path):
    for p in path:
        node = node[p]
    return node


def _candidates(scn: dict):
    places = list(_paths(scn))
    # bigger containers first, ops first
    def weight(pk):
        path, kind = pk
        n = len(_get(scn, path))
        return (0 if path and path[0] == "ops" else 1, -n)
    places.sort(key=weight)
    for path, kind in places:
        cont = _get(scn, path)
        n = len(cont)
        if n == 0:
            continue
        if kind == "list":
            chunk = n
            while chunk >= 1:
                i = 0
                while i < n:
                    c = copy.deepcopy(scn)
                    lst = _get(c, path)
                    del lst[i:i + chunk]
                    yield c
                    i += chunk
                chunk //= 2
        else:
            for k in sorted(cont):
                c = copy.deepcopy(scn)
                del _get(c, path)[k]
                yield c


def size(scn) -> int:
    from .scenario import cjson
    return len(cjson(scn))


def shrink(scn: dict, still_fails, extra_candidates=None, budget_s: float = 90.0, max_exec: int = 600) -> tuple[dict, dict]:
    """still_fails(candidate) -> bool. Returns (smallest scenario found, stats)."""
    t0 = time.monotonic()
    best = scn
    execs = 0
    improved = True
    rounds = 0
    while improved and time.monotonic() - t0 < budget_s and execs < max_exec:
        improved = False
        rounds += 1
        gens = []
        if extra_candidates is not None:
            gens.append(extra_candidates(best))
        gens.append(_candidates(best))
        for g in gens:
            for cand in g:
                if time.monotonic() - t0 > budget_s or execs >= max_exec:
                    break
                if size(cand) >= size(best):
                    continue
                execs += 1
                if still_fails(cand):
                    best = cand
                    improved = True
                    break
            if improved:
                break
    return best, {"rounds": rounds, "executions": execs, "from": size(scn), "to": size(best), "wall_s": round(time.monotonic() - t0, 1)}
