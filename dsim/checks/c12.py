"""C12 - constants are always compliant with their declared type (World W; invariant monitor + boundary faults)."""
from __future__ import annotations
import random
from fractions import Fraction
from ..core.scenario import digest
from ..model import types as T
from ..model import gen as G
from ..model import rules
from ..model.namespace import Universe
from .base import Check, Outcome, InvalidScenario

WIDTHS = [1, 2, 3, 7, 8, 9, 15, 16, 17, 31, 32, 33, 53, 63, 64]
FLOAT_EXPR = {16: "65504", 32: "(2 - 2 ** -23) * 2 ** 127", 64: "(2 - 2 ** -52) * 2 ** 1023"}


def lit_int(rng: random.Random, v: int) -> str:
    if v < 0:
        return "-" + lit_int(rng, -v)
    r = rng.random()
    if r < 0.5:
        return str(v)
    if r < 0.7:
        return hex(v)
    if r < 0.8:
        return bin(v)
    if r < 0.9:
        s = str(v)
        return s if len(s) < 4 else s[:-3] + "_" + s[-3:]
    return oct(v)


def _ascii_lookalikes() -> list:
    """Every non-ASCII code point that some Unicode normalisation form or case mapping turns into ONE ASCII character
    (KELVIN SIGN -> K, GREEK QUESTION MARK -> ;, fullwidth forms, superscripts, LONG S, ...): still not ASCII, must be rejected."""
    import unicodedata
    out: list = [[], [], []]
    for cp in list(range(0x80, 0x3000)) + list(range(0xff00, 0xfff0)) + list(range(0x1d400, 0x1d800)) + list(range(0x1f100, 0x1f200)):
        c = chr(cp)
        if 0xd800 <= cp < 0xe000:
            continue
        forms = [unicodedata.normalize(f, c) for f in ("NFC", "NFD", "NFKC", "NFKD")] + [c.lower(), c.upper(), c.casefold()]
        ascii1 = [len(x) == 1 and ord(x) < 128 for x in forms]
        if any(ascii1[:2]):
            out[0].append(c)  # canonical (de)composition
        elif any(ascii1[4:]):
            out[1].append(c)  # case mapping
        elif any(ascii1):
            out[2].append(c)  # compatibility (de)composition
    return out


ASCII_LOOKALIKE_CLASSES = _ascii_lookalikes()
ASCII_LOOKALIKES = [c for cl in ASCII_LOOKALIKE_CLASSES for c in cl]


INVISIBLES = "\ufeff\u200b\u200c\u200d\u2060\u00ad\ufe0f\u0301\u180e\u200e\u061c"


def gen_const(rng: random.Random, name: str):
    """Returns an item ["c", T, name, literal, value] - value: bool | [n, d] | {"str": s} | {"set": 1}"""
    r = rng.random()
    if r < 0.1:
        t = ["bool"]
    elif r < 0.5:
        t = ["u", rng.choice(WIDTHS), rng.choice("st")]
    elif r < 0.8:
        t = ["i", rng.choice([w for w in WIDTHS if w >= 2])]
    else:
        t = ["f", rng.choice([16, 32, 64]), rng.choice("st")]
    k = rng.random()
    if rng.random() < 0.06:
        # only boolean, integer and float types can carry constants: arrays / strings / byte arrays cannot, whatever the initializer
        t = rng.choice([["var", ["utf8"], 16], ["arr", ["u", 8, "s"], 6], ["var", ["byte"], 4], ["arr", ["bool"], 2], ["var", ["u", 8, "t"], 1], ["arr", ["f", 32, "s"], 1]])
        lit, v = rng.choice([('"sensor"', {"str": "sensor"}), ("'a'", {"str": "a"}), ("''", {"str": ""}), ("1", [1, 1]), ("true", True), ("{1}", {"set": 1}), ("'abcdef'", {"str": "abcdef"})])
        return ["c", t, name, lit, v]
    if t[0] == "bool":
        if k < 0.6:
            v = rng.random() < 0.5
            return ["c", t, name, "true" if v else "false", v]
        if k < 0.8:
            v = rng.choice([0, 1])
            return ["c", t, name, str(v), [v, 1]]
        return ["c", t, name, "'t'", {"str": "t"}]
    if k < 0.08:
        return ["c", t, name, rng.choice(["true", "false"]), rng.random() < 0.5] if False else ["c", t, name, "true", True]
    if k < 0.2:
        s = rng.choice(["a", "", "ab", "é", "\x00", "\x7f", "ÿ", "Z", " ", "\x80", "0", "K", "`", ";"] + [rng.choice(rng.choice([cl for cl in ASCII_LOOKALIKE_CLASSES if cl]))] * 6
                       # one ASCII character next to a character that text sanitisers tend to drop (BOM / zero-width / soft hyphen /
                       # variation selector / combining mark): two characters, never a valid uint8 initializer
                       + [rng.choice("azZ#09 ") + rng.choice(INVISIBLES), rng.choice(INVISIBLES) + rng.choice("azZ#09"), rng.choice(INVISIBLES)] * 2
                       # a single raw byte 0x80..0xFF in the file (Latin-1 text pasted into the definition): not valid UTF-8, not ASCII
                       + [chr(0xDC00 + rng.choice([0x80, 0xb5, 0xe9, 0xff, 0xa0, 0xc3])), "a" + chr(0xDC00 + 0xe9)])
        if rng.random() < 0.5 and t[0] != "bool":
            t = ["u", 8, rng.choice("st")]  # the only type that can accept a character at all
        raw = rng.random() < 0.4  # the character itself in the (UTF-8) file instead of an escape sequence
        lit = "'" + "".join(c if ((32 <= ord(c) < 127 or (raw and ord(c) >= 0xa0 and (c.isprintable() or c in INVISIBLES)) or 0xDC80 <= ord(c) <= 0xDCFF) and c not in "'\\") else ("\\u%04x" % ord(c) if ord(c) < 0x10000 else "\\U%08x" % ord(c)) for c in s) + "'"
        return ["c", t, name, lit, {"str": s}]
    if k < 0.24:
        return ["c", t, name, "{1, 2}", {"set": 1}]
    lo, hi = T.value_range(t)
    if rng.random() < 0.12:
        # real literals with more significant digits than any fixed-precision decimal context keeps: exact, never rounded
        from fractions import Fraction as _F
        digits = rng.choice([29, 31, 35, 40, 60])
        base = rng.choice([hi, lo, _F(1), _F(0), hi - 1, _F(int(hi) // 3)]) if t[0] != "f" else rng.choice([hi, lo, _F(1), _F(65504), _F(0)])
        ip = int(base)
        eps = rng.choice(["0" * (digits - 1) + "1", "0" * digits, "9" * digits, "0" * (digits - 2) + "25"])
        lit = "%d.%s" % (ip, eps)
        if len(str(abs(ip))) > 30 and rng.random() < 0.5:
            lit = "%d.0" % ip  # a long integral real literal (e.g. the exact float32 maximum)
        v = _F(lit)
        return ["c", t, name, lit, [v.numerator, v.denominator]]
    if rng.random() < 0.12:
        # initializers that are small constant expressions (negative integer exponents etc.); exact values computed by hand
        lit, val = rng.choice(G.FLOAT_EXPRS if t[0] == "f" else G.INT_EXPRS + G.FLOAT_EXPRS[:8])
        extra = rng.choice(["", "", " * 3", " + 655040 * 10 ** -1 - 65504"])
        if extra == " * 3":
            val = [val[0] * 3, val[1]]
        return ["c", t, name, "(" + lit + ")" + extra, list(val)]
    if t[0] == "f":
        e = FLOAT_EXPR[t[1]]
        choice = rng.randrange(9)
        if choice == 0:
            return ["c", t, name, e, [hi.numerator, hi.denominator]]
        if choice == 1:
            return ["c", t, name, "-(%s)" % e, [lo.numerator, lo.denominator]]
        if choice == 2:
            v = hi + Fraction(1, 1024)
            return ["c", t, name, "%s + 1/1024" % e, [v.numerator, v.denominator]]
        if choice == 3:
            v = lo - Fraction(1, 1024)
            return ["c", t, name, "-(%s) - 1/1024" % e, [v.numerator, v.denominator]]
        if choice == 4:
            return ["c", t, name, "1 / 3", [1, 3]]
        if choice == 5:
            v = hi * 2
            return ["c", t, name, "(%s) * 2" % e, [v.numerator, v.denominator]]
        if choice == 6:
            if rng.random() < 0.6:
                # tiny magnitudes (below the smallest subnormal of the type): exact rationals within the range, hence valid
                from fractions import Fraction as _F
                lit, v = rng.choice([("1e-8", _F(1, 10**8)), ("1e-46", _F(1, 10**46)), ("2 ** -1075", _F(1, 2**1075)), ("-(2 ** -1200)", -_F(1, 2**1200)),
                                     ("1e-400", _F(1, 10**400)), ("-1e-30", -_F(1, 10**30)), ("6e-8", _F(6, 10**8)), ("2 ** -25", _F(1, 2**25)), ("1 / 3 ** 90", _F(1, 3**90))])
                return ["c", t, name, lit, [v.numerator, v.denominator]]
            return ["c", t, name, "0.1", [1, 10]]
        if choice == 7:
            n = rng.randint(-1000, 1000)
            return ["c", t, name, lit_int(rng, n), [n, 1]]
        return ["c", t, name, "1e-3", [1, 1000]]
    lo_i, hi_i = int(lo), int(hi)
    choice = rng.randrange(9)
    if choice == 8:
        v = Fraction(rng.choice([1, 3, -1, 2 * hi_i + 1]), 2)
        return ["c", t, name, "(%s) / 2" % lit_int(rng, v.numerator), [v.numerator, v.denominator]]
    n = [lo_i, lo_i - 1, hi_i, hi_i + 1, 0, -1, hi_i // 2, lo_i + 1][choice]
    return ["c", t, name, lit_int(rng, n), [n, 1]]


class C12(Check):
    PROP = "C12"
    CRASH_ORACLE = "C12.invariant"
    RULE = ("each run = 6 single-file definitions with 1-3 constants each (bool, (u)int of 15 widths, saturated/truncated, "
            "float16/32/64); values at, just inside and just outside every boundary, halves, 1/3, 0.1, strings of length 0/1/2, "
            "non-ASCII and control characters, booleans on numbers and numbers on booleans, sets; every definition is read "
            "on its own. Verdict and expected exact rational are computed by model/rules.py; every returned Constant is also "
            "checked against the independent range tables (O1). Pure predicate - claimed as a by-product of the fault "
            "catalogue. distinct = number of distinct (type kind, width, value class, verdict) cases off the mid-range; non-trivial = the definition has "
            "at least one constant on or beyond a boundary, or of a foreign kind")
    RULE = RULE + "; " + 'round 8: one ASCII character next to an invisible character (BOM, zero-width, soft hyphen, variation selector, combining mark), raw or escaped'
    TIERS = {"quick": {"runs": 1200, "budget_s": 45}, "thorough": {"runs": 60000, "budget_s": 600}}

    def generate(self, rng: random.Random, r: int, tier: str) -> dict:
        defs = []
        for i in range(6):
            items = [gen_const(rng, "K%d" % j) for j in range(rng.randint(1, 3))]
            if rng.random() < 0.08:
                bad_t = rng.choice([["arr", ["u", 8, "s"], 2], ["var", ["u", 8, "s"], 2], ["void", 8], ["utf8"], ["byte"]])
                items.append(["c", bad_t, "KX", "0", [0, 1]])
            if rng.random() < 0.3:
                items.insert(rng.randint(0, len(items)), ["f", ["u", 8, "s"], "fld"])
            defs.append({"name": "cns.T%d" % i, "ver": [1, 0], "port": None, "ext": "dsdl", "dep": False,
                         "secs": [{"union": False, "seal": "sealed", "hdr": None, "items": items}]})
        return {"ws": {"roots": [{"dir": "w/d0/cns", "name": "cns", "defs": defs}]}, "fmt_final_nl": rng.random() < 0.5}

    def execute(self, scn: dict) -> Outcome:
        from ..worlds.workspace import World, classify_exc
        import pydsdl
        out = Outcome()
        ws = scn["ws"]
        uni = Universe(ws)
        fmt = {} if scn.get("fmt_final_nl", True) else {k: {"final_nl": False, "seal_first": True} for k in uni.defs}
        w = World({"ws": ws, "fmt": fmt})
        try:
            shapes = []
            nt = False
            pool: list = []
            for k, d in uni.defs.items():
                consts = [it for it in d["secs"][0]["items"] if it[0] == "c"]
                ok_all = True
                for it in consts:
                    v = it[4]
                    if rules.type_problems(it[1], "const"):
                        good = False
                        cls = "type"
                    elif isinstance(v, dict) and "set" in v:
                        good = False
                        cls = "set"
                    elif isinstance(v, dict):
                        good = rules.const_value_ok(it[1], v["str"])
                        cls = "str%d" % len(v["str"].encode("utf-8", "surrogateescape"))
                    else:
                        good = rules.const_value_ok(it[1], v)
                        cls = "bool" if isinstance(v, bool) else self._vclass(it[1], v)
                    ok_all = ok_all and good
                    shapes.append([it[1][0], it[1][1] if len(it[1]) > 1 else 1, cls, good])
                    if cls not in ("mid",):
                        nt = True
                res = w.run_read({"op": "rf", "files": [{"p": uni.file_of(k)}], "roots": [{"p": "w/d0/cns"}], "lookups": [], "key": None, "cwd": ""})
                out.stats["definitions"] += 1
                out.obs.append([k, "ok" if res["ok"] else classify_exc(res["exc"]), ok_all])
                if ok_all:
                    out.stats["must_accept"] += 1
                    if not res["ok"]:
                        out.fail("C12.accept", "%s: all constants comply (%s) but the call raised %s: %s" % (k, [(T.type_str(c[1]), c[3]) for c in consts], type(res["exc"]).__name__, str(res["exc"])[:300]),
                                 "rejected:" + type(res["exc"]).__name__)
                        continue
                else:
                    out.stats["must_reject"] += 1
                    if res["ok"]:
                        out.fail("C12.reject", "%s: a non-compliant constant was accepted: %s" % (k, [(T.type_str(c[1]), c[3]) for c in consts]), "accepted")
                    elif classify_exc(res["exc"]) != "IDE":
                        out.fail("C12.reject", "%s: rejected with %s" % (k, type(res["exc"]).__name__), "wrong-class:" + type(res["exc"]).__name__)
                    continue
                t = res["direct"][0]
                rc = t.constants
                if [c.name for c in rc] != [c[2] for c in consts]:
                    out.fail("C12.invariant", "%s: constants %s, model %s" % (k, [c.name for c in rc], [c[2] for c in consts]))
                    continue
                for c, it in zip(rc, consts):
                    self._invariant(out, k, c, it, pydsdl)
                    pool.append((c, it))
            # the same rules through the public constructor: the value of one returned constant offered to the type of another
            # (as the expression value it holds, and as the Constant object itself)
            for i, (c, it) in enumerate(pool[:8]):
                c2, it2 = pool[(i * 7 + 3) % len(pool)]
                t2 = it2[1]
                v = it[4]
                val = [ord(v["str"]), 1] if isinstance(v, dict) else v
                good = rules.const_value_ok(t2, val)
                for how, init in (("value", c.value), ("constant-object", c)):
                    try:
                        new = pydsdl.Constant(c2.data_type, "API_K", init)
                    except Exception as ex:
                        if how == "value" and good and isinstance(ex, pydsdl.InvalidDefinitionError):
                            out.fail("C12.accept", "Constant(%s, value of %s %s) rejected: %s" % (T.type_str(t2), T.type_str(it[1]), it[3], str(ex)[:200]), "api-rejected")
                        continue
                    out.stats["api_constructions"] += 1
                    if how == "value" and not good:
                        out.fail("C12.reject", "Constant(%s, value of %s %s) accepted although the value does not comply with the type" % (T.type_str(t2), T.type_str(it[1]), it[3]), "api-accepted")
                    elif not good:
                        # a Constant object as initializer: whatever the constructor makes of it, the result must be compliant
                        self._compliant(out, "Constant(%s, <Constant %s %s>)" % (T.type_str(t2), T.type_str(it[1]), it[3]), new, pydsdl)
            out.nontrivial = nt
            out.shapes = [digest(s) for s in shapes if s[2] != 'mid']
            out.stats["constants"] += len(shapes)
        finally:
            w.close()
        return out

    def _compliant(self, out, where, c, pydsdl) -> None:
        dt, val = c.data_type, c.value
        if isinstance(dt, pydsdl.BooleanType):
            ok = isinstance(val, pydsdl.Boolean)
        elif not isinstance(val, pydsdl.Rational):
            ok = False
        else:
            f = Fraction(val.native_value)
            if isinstance(dt, pydsdl.UnsignedIntegerType):
                ok = f.denominator == 1 and 0 <= f <= 2 ** dt.bit_length - 1
            elif isinstance(dt, pydsdl.SignedIntegerType):
                ok = f.denominator == 1 and -(2 ** (dt.bit_length - 1)) <= f <= 2 ** (dt.bit_length - 1) - 1
            elif isinstance(dt, pydsdl.FloatType):
                ok = abs(f) <= T.FLOAT_MAX[dt.bit_length]
            else:
                ok = False
        if not ok:
            out.fail("C12.invariant", "%s was accepted and holds %s, which does not comply with %s" % (where, val, dt), "api-noncompliant")

    def _vclass(self, t, v) -> str:
        if t[0] == "bool":
            return "num-on-bool"
        f = Fraction(v[0], v[1])
        lo, hi = T.value_range(t)
        if f.denominator != 1 and t[0] != "f":
            return "frac"
        if f in (lo, hi):
            return "edge"
        if f < lo or f > hi:
            return "beyond"
        return "frac" if f.denominator != 1 else "mid"

    def _invariant(self, out, k, c, it, pydsdl) -> None:
        t, v = it[1], it[4]
        dt = c.data_type
        val = c.value
        where = "%s.%s (%s = %s)" % (k, c.name, T.type_str(t), it[3])
        if isinstance(dt, pydsdl.BooleanType):
            if not isinstance(val, pydsdl.Boolean) or val.native_value is not v:
                out.fail("C12.invariant", where + ": boolean constant holds %r" % (val,))
            return
        if not isinstance(val, pydsdl.Rational):
            out.fail("C12.invariant", where + ": numeric constant holds %r" % (val,))
            return
        f = Fraction(val.native_value)
        want = Fraction(ord(v["str"]), 1) if isinstance(v, dict) else Fraction(v[0], v[1])
        if f != want:
            out.fail("C12.invariant", where + ": value %s, exact model value %s" % (f, want), "inexact")
        if isinstance(dt, pydsdl.UnsignedIntegerType):
            if f.denominator != 1 or not (0 <= f <= 2 ** dt.bit_length - 1):
                out.fail("C12.invariant", where + ": out of the unsigned range")
        elif isinstance(dt, pydsdl.SignedIntegerType):
            if f.denominator != 1 or not (-(2 ** (dt.bit_length - 1)) <= f <= 2 ** (dt.bit_length - 1) - 1):
                out.fail("C12.invariant", where + ": out of the signed range")
        elif isinstance(dt, pydsdl.FloatType):
            if abs(f) > T.FLOAT_MAX[dt.bit_length]:
                out.fail("C12.invariant", where + ": beyond the largest finite value")
        else:
            out.fail("C12.invariant", where + ": constant of type %s" % type(dt).__name__)
        rng = dt.inclusive_value_range
        lo, hi = T.value_range(t)
        if Fraction(rng.min) != lo or Fraction(rng.max) != hi:
            out.fail("C12.invariant", where + ": inclusive_value_range %s..%s, model %s..%s" % (rng.min, rng.max, lo, hi))


CHECK = C12()
