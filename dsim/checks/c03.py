"""C03 - the model mirrors the source text, independent of formatting (World W; stream / end-of-input faults)."""
from __future__ import annotations
import copy
import random
from ..core.scenario import digest
from ..model import gen as G
from ..model import types as T
from ..model.namespace import Universe
from .base import Check, Outcome, InvalidScenario
from . import wcommon as W


def strip_paths(c):
    if isinstance(c, dict):
        return {k: strip_paths(v) for k, v in c.items() if k not in ("src", "root", "h")}
    if isinstance(c, list):
        return [strip_paths(x) for x in c]
    return c


def canonical_dsdl(pydsdl, t) -> str:
    """Render a *returned* model back to canonical DSDL (the property's round-trip)."""
    def section(s) -> list[str]:
        out = []
        if s.doc:
            out += ["# " + ln for ln in s.doc.split("\n")]
        inner = s.inner_type
        if isinstance(inner, pydsdl.UnionType):
            out.append("@union")
        for a in s.attributes:
            out.append(str(a))
            if a.doc:
                out += ["# " + ln for ln in a.doc.split("\n")]
        if isinstance(s, pydsdl.DelimitedType):
            out.append("@extent %d" % s.extent)
        else:
            out.append("@sealed")
        return out
    lines = []
    if isinstance(t, pydsdl.ServiceType):
        a = section(t.request_type)
        b = section(t.response_type)
    else:
        a, b = section(t), None
    if t.deprecated:
        # @deprecated must precede the first attribute; a header comment must stay first
        n = 0
        while n < len(a) and a[n].startswith("#"):
            n += 1
        a.insert(n, "@deprecated")
    lines += a
    if b is not None:
        lines.append("---")
        lines += b
    return "\n".join(lines) + "\n"


class C03(Check):
    PROP = "C03"
    CRASH_ORACLE = "C03.mirror"
    RULE = ("each run = one generated root (messages and services, structures and unions, fields / paddings / constants in any "
            "mix, @deprecated, sealed and delimited, header comments, same-line and following-line attribute comments) rendered "
            "under 4-7 formatting vectors: final newline present/absent, LF/CRLF, runs of blanks/tabs between tokens and inside "
            "brackets, trailing blanks, extra empty lines (truly empty or blanks-only), orphan comment blocks fenced by empty "
            "lines, @sealed first or last, @union/@deprecated order, and every way the text can end (field / constant / padding / "
            "directive / comment / empty line x with/without newline). Oracles: mirror against the abstract definition, "
            "identical canonical form across vectors, round trip of the returned model through canonical DSDL. distinct = hash "
            "of (item-kind multiset, section count, sorted formatting features, how the text ends); non-trivial = a vector "
            "changes the end of the text or inserts comment / blank lines and the definition has >= 2 attributes")
    TIERS = {"quick": {"runs": 640, "budget_s": 50}, "thorough": {"runs": 40000, "budget_s": 900}}
    ASSUMPTIONS = ["trailing blanks are only added to lines that carry no comment (blanks after comment text are comment content)",
                   "comment attachment is asserted for the two unambiguous placements only (same line; immediately following lines)"]

    def generate(self, rng: random.Random, r: int, tier: str) -> dict:
        ws = G.gen_workspace(rng, roots=(1, 2), defs=(2, 6), p_doc=0.45, p_const=0.5, p_pad=0.25, p_service=0.25, p_union=0.3, p_dep=0.15,
                             p_uavcan=0.1, max_fields=5, p_derive=0.4, p_ref=0.5)
        uni = Universe(ws)
        variants = [{}]
        for v in range(rng.randint(3, 6)):
            fm = {}
            for k, d in uni.defs.items():
                f = G.gen_fmt(rng, d, rich=True)
                if rng.random() < 0.3:
                    f["blank"] = rng.choice([" ", "\t", "   "])
                # systematically cover the ways a text can end
                end = rng.randrange(6)
                if end == 0:
                    f["seal_first"], f["final_nl"] = True, False
                    f.pop("tail", None)
                elif end == 1:
                    f["seal_first"], f["final_nl"] = False, False
                    f.pop("tail", None)
                elif end == 2:
                    f["tail"], f["final_nl"] = ["", "# trailing remark"], False
                elif end == 3:
                    f["tail"], f["final_nl"] = [rng.choice(["", " ", "\t"])], rng.random() < 0.5
                elif end == 4:
                    f["seal_first"] = True
                    f["tail"] = ["# doc of the last attribute? no: follows a fence", ][:0]
                fm[k] = f
            variants.append(fm)
        return {"ws": ws, "variants": variants, "key": rng.randrange(1 << 30)}

    def execute(self, scn: dict) -> Outcome:
        from ..worlds.workspace import World, classify_exc
        from ..worlds import realcanon
        from ..model.render import render
        import pydsdl
        out = Outcome()
        W.validate_ws(scn["ws"])
        w = World({"ws": scn["ws"], "fmt": scn["variants"][0] if scn["variants"] else {}})
        try:
            uni = w.uni
            nroots = len(uni.roots)
            feats = set()
            base: dict[str, str] = {}
            last_ok = None
            for vi, fm in enumerate(scn["variants"]):
                for k, d in uni.defs.items():
                    text, _ = render(d, fm.get(k))
                    w.write(uni.file_of(k), text)
                    f = fm.get(k) or {}
                    for key in f:
                        if key in ("blanks", "orphans", "tail", "lead") and not f[key]:
                            continue
                        feats.add(key if not isinstance(f[key], bool) else "%s=%s" % (key, f[key]))
                    feats.add("end:" + ("nl" if text.endswith("\n") else "no-nl"))
                    lastline = text.rstrip("\r\n").rsplit("\n", 1)[-1].strip()
                    endk = "comment" if lastline.startswith("#") else "directive" if lastline.startswith("@") else "blank" if not lastline else "marker" if lastline.startswith("---") else "attribute"
                    out.shapes.append(digest([sorted({it[0] for s0 in d["secs"] for it in s0["items"]}), len(d["secs"]), bool(f.get("orphans")), bool(f.get("blank")), bool(f.get("crlf")), endk, text.endswith("\n")]))
                    out.stats["ends:%s:%s" % (endk, "nl" if text.endswith("\n") else "no-nl")] += 1
                for ri in range(nroots):
                    op = {"op": "rn", "root": {"p": uni.roots[ri]["dir"]}, "lookups": [{"p": uni.roots[x]["dir"]} for x in range(nroots) if x != ri],
                          "key": scn.get("key"), "cwd": ""}
                    res = w.run_read(op)
                    out.stats["reads"] += 1
                    if not res["ok"]:
                        out.obs.append([vi, ri, classify_exc(res["exc"])])
                        out.fail("C03.mirror", "variant %d root %d: valid definition rejected under formatting %s: %s: %s" % (
                            vi, ri, {k: v for k, v in fm.items() if k in str(res["exc"])} or "", type(res["exc"]).__name__, str(res["exc"])[:300]),
                            "rejected:" + type(res["exc"]).__name__)
                        continue
                    c = realcanon.Canon(w.scratch)
                    m = realcanon.Matcher(uni.res)
                    for t in res["direct"]:
                        k = str(t)
                        if k not in uni.defs:
                            out.fail("C03.mirror", "unexpected definition %s" % k)
                            continue
                        m.message(k, k, t, docs=True)
                        cd = digest(strip_paths(c.composite(t)))
                        if k in base and base[k] != cd:
                            out.fail("C03.invariance", "variant %d: %s differs from the canonical-format rendering; formatting vector %s" % (vi, k, fm.get(k)),
                                     "invariance:" + ",".join(sorted((fm.get(k) or {}).keys())))
                        base.setdefault(k, cd)
                        out.obs.append([vi, k, cd])
                    if m.bad:
                        sig = "mirror:" + m.bad[0].split(": ", 1)[-1].split(" ")[0]
                        out.fail("C03.mirror", "variant %d: %s" % (vi, "; ".join(m.bad[:3])), sig)
                    last_ok = (ri, res)
                    out.stats["variants_read"] += 1
            # round trip of the returned models (last variant): canonical DSDL into a sibling tree, same root names
            rt_roots = []
            ok = True
            for ri in range(nroots):
                op = {"op": "rn", "root": {"p": uni.roots[ri]["dir"]}, "lookups": [{"p": uni.roots[x]["dir"]} for x in range(nroots) if x != ri], "key": None, "cwd": ""}
                res = w.run_read(op)
                if not res["ok"]:
                    ok = False
                    break
                rt_roots.append(res["direct"])
            if ok:
                orig = {}
                # a client that sorted / filtered the attribute lists it got from the models in place, before the models are
                # rendered back: the models are values, they still mirror the source
                from ..worlds.realcanon import hostile_client
                out.stats["client_list_mutations"] += hostile_client([t for types in rt_roots for t in types])
                m3 = realcanon.Matcher(uni.res)
                for types in rt_roots:
                    for t in types:
                        if str(t) in uni.defs:
                            m3.message(str(t), str(t), t, docs=True)
                if m3.bad:
                    out.fail("C03.mirror", "after a client modified the lists returned by the model's accessors in place: %s" % "; ".join(m3.bad[:3]), "mirror:client-mutation")
                for ri, types in enumerate(rt_roots):
                    c = realcanon.Canon(w.scratch)
                    for t in types:
                        orig[str(t)] = strip_paths(c.composite(t))
                        rel = uni.file_of(str(t)).replace("w/d", "w/rt", 1)
                        w.write(rel, canonical_dsdl(pydsdl, t))
                import os
                for ri in range(nroots):
                    os.makedirs(w.abs(uni.roots[ri]["dir"].replace("w/d", "w/rt", 1)), exist_ok=True)
                for ri in range(nroots):
                    rdir = uni.roots[ri]["dir"].replace("w/d", "w/rt", 1)
                    op = {"op": "rn", "root": {"p": rdir}, "lookups": [{"p": uni.roots[x]["dir"].replace("w/d", "w/rt", 1)} for x in range(nroots) if x != ri], "key": None, "cwd": ""}
                    res = w.run_read(op)
                    if not res["ok"]:
                        out.fail("C03.roundtrip", "canonical rendering of the returned model is rejected: %s: %s" % (type(res["exc"]).__name__, str(res["exc"])[:300]), "rt-rejected:" + type(res["exc"]).__name__)
                        continue
                    c = realcanon.Canon(w.scratch)
                    for t in res["direct"]:
                        if strip_paths(c.composite(t)) != orig.get(str(t)):
                            out.fail("C03.roundtrip", "%s: model read back from its canonical rendering differs" % t)
                    out.stats["roundtrips"] += len(res["direct"])
            # history: a revision of the same files in the same process - every base constant gets another value (names, types
            # and layouts stay); derived constants (NAME + n, ns.Type.M.m.NAME + n) must follow, nothing may be remembered
            ws2 = G.revise_constants(scn["ws"], scn.get("key") or 0)
            if ws2 is not None:
                from ..model.namespace import Universe as _U
                uni2 = _U(ws2)
                for k, d in uni2.defs.items():
                    w.write(uni2.file_of(k), render(d, None)[0])
                out.stats["constant_revisions"] += 1
                for ri in range(nroots):
                    op = {"op": "rn", "root": {"p": uni2.roots[ri]["dir"]}, "lookups": [{"p": uni2.roots[x]["dir"]} for x in range(nroots) if x != ri], "key": None, "cwd": ""}
                    res = w.run_read(op)
                    if not res["ok"]:
                        out.fail("C03.mirror", "revision with other constant values rejected: %s: %s" % (type(res["exc"]).__name__, str(res["exc"])[:300]), "revision-rejected:" + type(res["exc"]).__name__)
                        continue
                    m = realcanon.Matcher(uni2.res)
                    for t in res["direct"]:
                        if str(t) in uni2.defs:
                            m.message(str(t), str(t), t, docs=True)
                    if m.bad:
                        out.fail("C03.mirror", "after the constants were revised in the same files (same process): %s" % "; ".join(m.bad[:3]), "revision:" + m.bad[0].split(": ", 1)[-1].split(" ")[0])
            kinds = sorted((it[0] for d in uni.defs.values() for s in d["secs"] for it in s["items"]))
            nattr = max(sum(1 for s in d["secs"] for it in s["items"] if it[0] != "raw") for d in uni.defs.values())
            out.nontrivial = nattr >= 2 and bool(feats - {"end:nl"})
            out.shape = digest([sorted(set(kinds)), max(len(d["secs"]) for d in uni.defs.values()), sorted(feats)])
            for f in feats:
                out.stats["fmt:" + f] += 1
        finally:
            w.close()
        return out


CHECK = C03()
