"""C01 - bit length set algebra is exact for every composition and every divisor (World V)."""
from __future__ import annotations
import random
from math import comb
from ..core.scenario import digest
from ..model import blsref as B
from .base import Check, Outcome, InvalidScenario

COST_LIMIT = 150000


def est_cost(node: B.Node, d: int) -> int:
    """Upper estimate of the number of tuples the implementation under test enumerates for `% d` (used only to keep the
    workload tractable; never part of an oracle)."""
    if isinstance(node, B.Leaf):
        return len(node.s)
    if d > (1 << 18):
        return 1 << 60
    if isinstance(node, B.Pad):
        from math import gcd
        return est_cost(node.a, node.r // gcd(node.r, d) * d) + 1
    if isinstance(node, B.Cat):
        c = 1
        for ch in node.ch:
            c *= max(1, len(ch.mod(d)))
        return c + sum(est_cost(ch, d) for ch in node.ch)
    if isinstance(node, B.Uni):
        return sum(est_cost(ch, d) for ch in node.ch) + 1
    if isinstance(node, B.Rep):
        n = max(1, len(node.a.mod(d)))
        ek = min(node.k, d + node.k % d)
        c = comb(n + ek - 1, ek) if n + ek < 3000 else 1 << 60
        return min(c, 1 << 60) + est_cost(node.a, d)
    if isinstance(node, B.Rng):
        n = max(1, len(node.a.mod(d)))
        ek = min(node.k, d + node.k % d)
        c = comb(n + ek, ek) if n + ek < 3000 else 1 << 60
        return min(c, 1 << 60) + est_cost(node.a, d)
    raise TypeError(node)


def build_ref(pool: list, op: list) -> B.Node:
    k = op[0]
    if k == "leaf":
        return B.Leaf(op[1])
    if k in ("cat", "radd"):
        return B.Cat(*[pool[i] if isinstance(i, int) else B.Leaf(i["lit"]) for i in op[1]])
    if k in ("uni", "ror"):
        return B.Uni(*[pool[i] if isinstance(i, int) else B.Leaf(i["lit"]) for i in op[1]])
    if k == "rep":
        return B.Rep(pool[op[1]], op[2])
    if k == "rng":
        return B.Rng(pool[op[1]], op[2])
    if k == "pad":
        return B.Pad(pool[op[1]], op[2])
    if k == "copy":
        return pool[op[1]]
    raise InvalidScenario("op " + str(k))


class C01(Check):
    PROP = "C01"
    CRASH_ORACLE = "C01.selfcheck"
    WORLD = "V"
    RULE = ("each run = one operation sequence (30-60 ops) over a growing pool of BitLengthSets: new leaves, + / concatenate / "
            "radd, | / unite / ror, repeat(k), repeat_range(k), pad_to_alignment(a) applied to pool members (so operands are shared "
            "between several results), interleaved in seeded order with queries min, max, fixed_length, % d, is_aligned_at(d), "
            "is_aligned_at_byte, iter / len (only where the reference says the set is small), ==, hash, and with clock jumps. Two "
            "regimes per run: small (k <= 6, leaves <= 4 elements < 200; oracle = explicit sets) and huge (k up to 2**63, d up to "
            "2**16; oracle = residues from modular sumset powers). Every earlier answer of every operand is re-checked after new "
            "sets were built from it. Exactness itself is a pure fact decided by sampling against an independent algorithm; the "
            "history-dependent part is cache transparency and operand immutability. distinct = hash of (operator nesting "
            "signature of the queried set, query kind, divisor class); non-trivial = nesting depth >= 2")
    TIERS = {"quick": {"runs": 1600, "budget_s": 50}, "thorough": {"runs": 150000, "budget_s": 900}}
    REAL_VS_STUB = "real: pydsdl._bit_length_set (public class BitLengthSet); simulated: operation / query order, the clock; reference: dsim/model/blsref.py"
    FAULTS_NOT_INJECTED = ["threads"]

    def generate(self, rng: random.Random, r: int, tier: str) -> dict:
        huge = rng.random() < 0.4
        ops: list[list] = []
        pool: list[B.Node] = []
        depth: list[int] = []

        def leaf():
            if rng.random() < 0.08:
                return [0]  # the length set of an empty composite: repetitions of it stay {0}
            if rng.random() < 0.12:
                # an arithmetic progression: all residues in one coset of the stride (sumsets of such sets keep their size while
                # they move from coset to coset)
                st = rng.choice([8, 16, 32, 24, 6])
                a0 = rng.choice([0, 8, 3, 16])
                return [a0 + st * i for i in range(rng.randint(3, 5))]
            n = rng.randint(1, 4)
            if huge and rng.random() < 0.5:
                vals = sorted({rng.choice([0, 1, 7, 8, 16, 24, 31, 32, 33, 64, 2**20 + 1, 2**40, 2**53 + 1, 2**53 - 64 + 5, 2**60 + 7, 2**63 + 3]) for _ in range(n)})
            else:
                vals = sorted({rng.randint(0, 199) for _ in range(n)})
            return vals

        def emit(op):
            node = build_ref(pool, op) if op[0] != "leaf" else B.Leaf(op[1])
            ops.append(op)
            pool.append(node)
            return len(pool) - 1

        nops = rng.randint(30, 60)
        for _ in range(nops):
            if rng.random() < 0.07:
                # approximately-equal twins: same min, max and residues mod 32 but different members, then their union,
                # queried with divisors that do not divide 32 (an implementation must not confuse such operands)
                if huge and rng.random() < 0.5:
                    k = rng.choice([3, 1000, 2**20, 2**40])
                    a = emit(["leaf", [64]])
                    b = emit(["leaf", [32]])
                    x = emit(["rng", a, k])
                    y = emit(["rng", b, 2 * k])
                else:
                    lo = rng.randint(0, 40)
                    mid = lo + rng.randint(1, 30)
                    hi = mid + 32 * rng.randint(1, 3) + rng.randint(1, 30)
                    x = emit(["leaf", sorted({lo, mid, hi})])
                    y = emit(["leaf", sorted({lo, mid + 32 * rng.randint(1, (hi - mid - 1) // 32), hi})])
                order = [x, y] if rng.random() < 0.5 else [y, x]
                u = emit(["uni", order])
                if rng.random() < 0.5:
                    u = emit(rng.choice([["pad", u, 8], ["rep", u, 2], ["cat", [u, rng.randrange(len(pool))]]]))
                for d in rng.sample([64, 3, 5, 96, 7, 128], 3):
                    if est_cost(pool[u], d) <= COST_LIMIT:
                        ops.append(["q", rng.choice(["mod", "aligned"]), u, d])
                if pool[u].work() <= 20000:
                    ops.append(["q", "iter", u])
                continue
            if rng.random() < 0.04:
                # directed: an exact repetition (k >= 64) of an arithmetic progression whose residues sit in ONE coset of the stride,
                # queried with divisors >= 64 - the k-fold sumset keeps its size while it walks through the cosets
                st = rng.choice([16, 32, 8, 48])
                a0 = rng.choice([8, 0, 24, 4])
                x = emit(["leaf", [a0 + st * i for i in range(rng.randint(3, 5))]])
                k = rng.choice([64, 65, 66, 70, 71, 96, 100, 129]) if not huge else rng.choice([64, 70, 71, 1000, 2**20 + 6, 2**40 + 7])
                y = emit(["rep", x, k])
                if rng.random() < 0.4:
                    y = emit(rng.choice([["uni", [y, rng.randrange(len(pool))]], ["cat", [y, x]], ["pad", y, 8]]))
                for d in rng.sample([64, 96, 128, 256, 192, 160, 320], 3):
                    if est_cost(pool[y], d) <= COST_LIMIT:
                        ops.append(["q", rng.choice(["mod", "mod", "aligned"]), y, d])
                continue
            if rng.random() < 0.04:
                # directed: exact repetitions (k between d and 3d) of an element whose residues modulo a COMPOSITE d are whole
                # cosets of a proper subgroup ({0,1} + {0,8} mod 16): the k-fold sumset does not fill up as fast as for a prime d
                d = rng.choice([10, 12, 14, 15, 16, 18, 20, 24])
                pf = rng.choice([q0 for q0 in (2, 3, 5, 7) if d % q0 == 0])
                sub = [i * (d // pf) + rng.choice([0, 0, d]) for i in range(pf)]
                offs = list(range(rng.randint(2, max(2, d // pf - 1))))
                a, b = emit(["leaf", sorted(set(offs))]), emit(["leaf", sorted(set(sub))])
                x = emit(["cat", [a, b]])
                for k in rng.sample(range(d, 3 * d + 2), 4):
                    y = emit(["rep", x, k])
                    for dd in (d, 2 * d):
                        if est_cost(pool[y], dd) <= COST_LIMIT:
                            ops.append(["q", rng.choice(["mod", "mod", "aligned"]), y, dd])
                continue
            if len(pool) < 2 or rng.random() < 0.12:
                op = ["leaf", leaf()]
                if rng.random() < 0.2 and len(op[1]) == 1:
                    op = ["leaf", op[1], "int"]
                d = 0
            else:
                kind = rng.random()
                if kind < 0.45:
                    # construction
                    c = rng.random()
                    if c < 0.25:
                        idx = [rng.randrange(len(pool)) for _ in range(rng.randint(2, 3))]
                        if rng.random() < 0.2:
                            idx[-1] = idx[0]  # the SAME operand object twice in one concatenation (a + a)
                        if rng.random() < 0.25:
                            idx[rng.randrange(len(idx))] = {"lit": leaf()}
                        op = [rng.choice(["cat", "radd"]) if len(idx) == 2 else "cat", idx]
                    elif c < 0.45:
                        idx = [rng.randrange(len(pool)) for _ in range(rng.randint(2, 3))]
                        if rng.random() < 0.2:
                            idx[-1] = idx[0]
                        if rng.random() < 0.25:
                            idx[rng.randrange(len(idx))] = {"lit": leaf()}
                        op = [rng.choice(["uni", "ror"]) if len(idx) == 2 else "uni", idx]
                    elif c < 0.65:
                        k = rng.choice([0, 1, 2, 3, 6]) if not huge else rng.choice([0, 1, 5, 64, 70, 71, 255, 256, 1000, 65535, 2**32, 2**63, 2**63 - 1, rng.randint(0, 2**63)])
                        op = ["rep", rng.randrange(len(pool)), k]
                    elif c < 0.85:
                        k = rng.choice([0, 1, 2, 3, 6]) if not huge else rng.choice([0, 1, 5, 64, 255, 256, 1000, 65535, 2**32, 2**63, rng.randint(0, 2**63)])
                        op = ["rng", rng.randrange(len(pool)), k]
                    elif c < 0.97:
                        op = ["pad", rng.randrange(len(pool)), rng.choice([1, 2, 3, 5, 8, 8, 16, 32, 64, 7, 12])]
                    else:
                        op = ["copy", rng.randrange(len(pool))]
                    if op[0] in ("radd", "ror") and not (isinstance(op[1][0], dict) and isinstance(op[1][1], int)):
                        op[0] = "cat" if op[0] == "radd" else "uni"
                    try:
                        node = build_ref(pool, op)
                    except Exception:
                        continue
                    if node.hi > 2**80:
                        continue
                    ops.append(op)
                    pool.append(node)
                    if op[0] in ("cat", "uni") and isinstance(op[1], list) and len(op[1]) >= 2 and op[1][0] == op[1][-1] and isinstance(op[1][0], int):
                        for d in rng.sample([8, 16, 32, 3, 12, 64], 2):
                            if est_cost(node, d) <= COST_LIMIT:
                                ops.append(["q", rng.choice(["mod", "aligned"]), len(pool) - 1, d])
                    continue
                # query
                i = rng.randrange(len(pool))
                node = pool[i]
                q = rng.random()
                if q < 0.15:
                    op = ["q", rng.choice(["min", "max", "fixed"]), i]
                elif q < 0.6:
                    d = rng.choice([1, 2, 3, 7, 8, 8, 16, 32, 32, 64, 5, 12, 100]) if not huge or rng.random() < 0.6 else rng.choice([255, 256, 257, 1000, 1024, 4096, 4095, 2048, 65535 if rng.random() < 0.1 else 511, 65536 if rng.random() < 0.1 else 512])
                    if est_cost(node, d) > COST_LIMIT:
                        continue
                    op = ["q", rng.choice(["mod", "mod", "aligned"]), i, d]
                elif q < 0.7:
                    if est_cost(node, 8) > COST_LIMIT:
                        continue
                    op = ["q", "aligned_byte", i]
                elif q < 0.85:
                    if node.work() > 20000:
                        continue
                    op = ["q", rng.choice(["iter", "len"]), i]
                elif q < 0.95:
                    j = rng.randrange(len(pool))
                    if est_cost(node, 32) > COST_LIMIT or est_cost(pool[j], 32) > COST_LIMIT:
                        continue
                    op = ["q", "eq", i, j]
                elif q < 0.98:
                    op = ["q", "hash", i]
                else:
                    op = ["jump", rng.choice([-5.0, 3.0, 100.0, -1e6, 1e6])]
                ops.append(op)
                continue
            ops.append(op)
            pool.append(B.Leaf(op[1]))
        return {"ops": ops, "huge": huge}

    def execute(self, scn: dict) -> Outcome:
        import pydsdl
        from ..env import clock
        BLS = pydsdl.BitLengthSet
        out = Outcome()
        clock.install()
        clock.reset()
        real: list = []
        ref: list[B.Node] = []
        answers: dict = {}  # (pool index, query signature) -> canonical answer (re-checked later: operands never change)
        maxdepth = 0
        depth: list[int] = []

        def sig(node: B.Node, lim=3) -> str:
            if lim == 0 or isinstance(node, B.Leaf):
                return "L"
            if isinstance(node, (B.Cat, B.Uni)):
                return type(node).__name__[0] + "(" + ",".join(sorted(sig(c, lim - 1) for c in node.ch)) + ")"
            return type(node).__name__[0] + "(" + sig(node.a, lim - 1) + ")"

        def ask(i: int, q: list):
            b, node = real[i], ref[i]
            kind = q[0]
            if kind == "min":
                return b.min, node.lo
            if kind == "max":
                return b.max, node.hi
            if kind == "fixed":
                return b.fixed_length, node.lo == node.hi
            if kind == "mod":
                return sorted(set(b % q[1])), sorted(node.mod(q[1]))
            if kind == "aligned":
                return b.is_aligned_at(q[1]), node.mod(q[1]) == {0}
            if kind == "aligned_byte":
                return b.is_aligned_at_byte(), node.mod(8) == {0}
            if kind == "iter":
                return sorted(b), sorted(node.expand())
            if kind == "len":
                return len(b), len(node.expand())
            raise InvalidScenario(kind)

        try:
            for n, op in enumerate(scn["ops"]):
                k = op[0]
                try:
                    if k == "jump":
                        clock.jump(float(op[1]))
                        out.stats["clock_jumps"] += 1
                        continue
                    if k == "q":
                        qk = op[1]
                        i = op[2]
                        if i >= len(real):
                            raise InvalidScenario("index")
                        if qk == "eq":
                            j = op[3]
                            if j >= len(real):
                                raise InvalidScenario("index")
                            got = (real[i] == real[j])
                            ext_equal = ref[i].lo == ref[j].lo and ref[i].hi == ref[j].hi and all(ref[i].mod(m) == ref[j].mod(m) for m in (32,)) and \
                                (ref[i].work() > 20000 or ref[j].work() > 20000 or ref[i].expand() == ref[j].expand())
                            really_equal = ref[i].work() <= 20000 and ref[j].work() <= 20000 and ref[i].expand() == ref[j].expand()
                            if really_equal and not got:
                                out.fail("C01.answer", "op %d: two extensionally equal sets compare unequal: %s vs %s" % (n, real[i], real[j]), "eq-false-negative")
                            if got and (ref[i].lo != ref[j].lo or ref[i].hi != ref[j].hi):
                                out.fail("C01.answer", "op %d: sets with different min/max compare equal" % n, "eq-minmax")
                            if got and hash(real[i]) != hash(real[j]):
                                out.fail("C01.answer", "op %d: equal sets with different hashes" % n, "eq-hash")
                            out.stats["q:eq"] += 1
                            continue
                        if qk == "hash":
                            h1, h2 = hash(real[i]), hash(real[i])
                            if h1 != h2:
                                out.fail("C01.answer", "op %d: unstable hash" % n, "hash")
                            continue
                        q = [qk] + op[3:]
                        got, want = ask(i, q)
                        out.stats["q:" + qk] += 1
                        out.obs.append([n, qk, digest(got)])
                        out.shapes.append(digest([sig(ref[i]), qk, ("big" if op[3] > 64 else op[3]) if len(op) > 3 else None]))
                        if depth[i] >= 2:
                            out.nontrivial = True
                        if got != want:
                            out.fail("C01.answer", "op %d: %s of %s = %s, mathematically %s" % (n, q, real[i], str(got)[:200], str(want)[:200]), "answer:%s:%s" % (qk, sig(ref[i], 1)[0]))
                        answers[(i, tuple(q))] = want
                        continue
                    # construction
                    if k == "leaf":
                        vals = op[1]
                        if len(vals) >= 2 and len({b0 - a0 for a0, b0 in zip(vals, vals[1:])}) == 1 and n % 3 == 0:
                            # an arithmetic progression handed over as a range object, ascending or descending
                            st = vals[1] - vals[0]
                            vals_r = range(vals[0], vals[-1] + 1, st) if n % 2 else range(vals[-1], vals[0] - 1, -st)
                            b = BLS(vals_r)
                            real.append(b); ref.append(B.Leaf(op[1])); depth.append(0); out.stats["constructed"] += 1; out.stats["range_leaves"] += 1
                            continue
                        sel = n % 6  # BitLengthSet(values: Iterable[int] | int): a set, list, tuple, frozenset, generator or iterator
                        b = BLS(vals[0]) if len(op) > 2 and op[2] == "int" else BLS(set(vals) if sel == 0 else list(vals) + vals[:1] if sel == 1 else tuple(vals) if sel == 2 else frozenset(vals) if sel == 3 else (x for x in vals) if sel == 4 else iter(list(vals)))
                        node = B.Leaf(op[1])
                        dp = 0
                    else:
                        node = build_ref(ref, op)
                        args = [real[x] if isinstance(x, int) else (set(x["lit"]) if len(x["lit"]) > 1 else x["lit"][0]) for x in op[1]] if k in ("cat", "uni", "radd", "ror") else None
                        def it(a):
                            # concatenate() / unite() take an Iterable: a list, a tuple, or something that can be consumed once
                            sel = n % 6
                            return a if sel < 2 else tuple(a) if sel == 2 else (x for x in a) if sel == 3 else iter(a) if sel == 4 else map(lambda x: x, a)
                        if k in ("cat", "uni") and len(args) == 2 and isinstance(args[0], BLS) and n % 5 == 4:
                            # augmented assignment on an ALIAS of the left operand: `c = a; c += x` must leave `a` as it was
                            c0 = args[0]
                            if k == "cat":
                                c0 += args[1]
                            else:
                                c0 |= args[1]
                            b = c0
                            out.stats["augmented_assignments"] += 1
                        elif k == "cat":
                            b = BLS.concatenate(it(args)) if len(args) != 2 or n % 2 else (args[0] + args[1] if isinstance(args[0], BLS) else BLS.concatenate(it(args)))
                        elif k == "radd":
                            b = args[0] + args[1]  # literal + BitLengthSet -> __radd__
                        elif k == "uni":
                            b = BLS.unite(it(args)) if len(args) != 2 or n % 2 else (args[0] | args[1] if isinstance(args[0], BLS) else BLS.unite(it(args)))
                        elif k == "ror":
                            b = args[0] | args[1]
                        elif k == "rep":
                            b = real[op[1]].repeat(op[2])
                        elif k == "rng":
                            b = real[op[1]].repeat_range(op[2])
                        elif k == "pad":
                            b = real[op[1]].pad_to_alignment(op[2])
                        elif k == "copy":
                            b = BLS(real[op[1]])
                        else:
                            raise InvalidScenario(k)
                        operands = [x for x in (op[1] if isinstance(op[1], list) else [op[1]]) if isinstance(x, int)]
                        dp = 1 + max([depth[x] for x in operands] or [0])
                        # operands never change: every recorded answer of every operand still holds, and so do the cheap ones
                        # that were never asked before (an operand whose old answers are memoised may still have changed)
                        for x in operands:
                            if (real[x].min, real[x].max) != (ref[x].lo, ref[x].hi):
                                out.fail("C01.operand-stable", "op %d: after building a new set from #%d its min / max are %d / %d, mathematically %d / %d" % (n, x, real[x].min, real[x].max, ref[x].lo, ref[x].hi), "operand:minmax")
                            for d0 in (7, 12):
                                if est_cost(ref[x], d0) <= 2000 and sorted(set(real[x] % d0)) != sorted(ref[x].mod(d0)):
                                    out.fail("C01.operand-stable", "op %d: after building a new set from #%d its residues mod %d are %s, mathematically %s" % (n, x, d0, sorted(set(real[x] % d0)), sorted(ref[x].mod(d0))), "operand:mod")
                        for x in operands:
                            for (i2, q2), want in list(answers.items()):
                                if i2 == x:
                                    got2, want2 = ask(i2, list(q2))
                                    if got2 != want:
                                        out.fail("C01.operand-stable", "op %d: after building a new set from #%d its answer to %s changed from %s to %s" % (n, x, q2, want, got2), "operand")
                                    out.stats["rechecks"] += 1
                    real.append(b)
                    ref.append(node)
                    depth.append(dp)
                    maxdepth = max(maxdepth, dp)
                    out.stats["constructed"] += 1
                except InvalidScenario:
                    raise
                except IndexError:
                    raise InvalidScenario("index")
                except AssertionError as ex:
                    out.fail("C01.selfcheck", "op %d (%s): the library's own numerical self-check failed: %r" % (n, op, ex), "selfcheck")
                except (ValueError, TypeError) as ex:
                    if isinstance(ex, ValueError) and k == "pad" and op[2] < 1:
                        continue
                    out.fail("C01.answer", "op %d (%s) raised %s: %s" % (n, op, type(ex).__name__, ex), "raised:" + type(ex).__name__)
            out.stats["max_depth_%d" % min(maxdepth, 6)] += 1
            out.stats["huge_runs"] += 1 if scn.get("huge") else 0
        finally:
            clock.uninstall()
        return out


CHECK = C01()
