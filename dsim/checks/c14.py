"""C14 - delimited (appendable) types evolve without breaking containers or the wire (World X; two revisions = two nodes)."""
from __future__ import annotations
import copy
import random
from ..core.scenario import digest
from ..model import gen as G
from ..model import types as T
from ..model import refcodec as R
from ..model import valgen as V
from ..model.namespace import Universe
from .base import Check, Outcome, InvalidScenario
from . import wcommon as W
from .c06 import gen_wire_ws


def build_new(scn: dict) -> dict:
    ws = copy.deepcopy(scn["ws"])
    for r in ws["roots"]:
        for d in r["defs"]:
            if T.def_key(d) == scn["rev"]["key"]:
                d["secs"][0]["items"] = copy.deepcopy(scn["rev"]["items_new"])
                return ws
    raise InvalidScenario("revised definition not found")


def translate(v, t, res_from: T.Resolver, res_to: T.Resolver, dkey: str):
    """What a reader holding the other revision must see for value v of type t (canonical decoded form)."""
    k = t[0]
    if k in ("arr", "var"):
        if isinstance(v, list):
            return [translate(x, t[1], res_from, res_to, dkey) for x in v]
        return v
    if k == "ref":
        key = T.key_of(t[1], t[2], t[3])
        sf, st = res_from.sec(key, 0), res_to.sec(key, 0)
        return translate_composite(v, key, sf, st, res_from, res_to, dkey)
    return v


def translate_composite(v: dict, key: str, sf: T.Sec, st: T.Sec, res_from, res_to, dkey):
    if sf.union:
        (n, x), = v.items()
        t = dict((a, b) for a, b in sf.fields if a)[n]
        return {n: translate(x, t, res_from, res_to, dkey)}
    out = {}
    from_fields = dict((a, b) for a, b in sf.fields if a)
    for n, t in st.fields:
        if n is None:
            continue
        if n in from_fields and n in v:
            out[n] = translate(v[n], from_fields[n], res_from, res_to, dkey)
        else:
            out[n] = R.default_value(res_to, t)
    return out


class C14(Check):
    PROP = "C14"
    CRASH_ORACLE = "C14.api"
    WORLD = "X"
    RULE = ("each run = one delimited structure D and a revision D' with the same extent whose field list extends D's by 1-3 fields of "
            "any kind (primitives, arrays, strings, unions, nested sealed / delimited composites); containers nest D at every "
            "position kind: field followed by sub-byte and byte-aligned fields, fixed and variable array element, union variant, "
            "inside another delimited type, plus randomly generated referrers. Each revision lives in its own scratch namespace "
            "(= node). API oracle: bit_length_set, extent and all field offsets of every container identical in both worlds. Wire "
            "oracle, both directions, 10-20 seeded values per container: common fields equal, unknown fields zero / empty / first "
            "variant, extra fields skipped, every later field and array element intact; the reference peer must agree, also under "
            "truncation faults on the skewed traffic. distinct = hash of (kinds of appended fields, container position kinds, "
            "direction); non-trivial = a value with a non-default field after the nested object was transferred across revisions")
    RULE = RULE + "; " + 'round 7: newer revisions ending in padding'
    TIERS = {"quick": {"runs": 480, "budget_s": 50}, "thorough": {"runs": 30000, "budget_s": 900}}

    def generate(self, rng: random.Random, r: int, tier: str) -> dict:
        ws = gen_wire_ws(rng, roots=(1, 1), defs=(1, 4), p_service=0.0, p_family=0.0, p_dep=0.0)
        gen = G.WorkspaceGen(rng, p_ref=0.4, max_cap=3, p_rel=0.0, p_cross_root=1.0)
        gen.roots = ws["roots"]
        root = ws["roots"][0]
        rn = root["name"]
        for d in root["defs"]:
            gen.defs[T.def_key(d)] = d
            gen.root_of[T.def_key(d)] = 0
        pool = [d for d in root["defs"] if not T.is_service(d) and not d.get("dep")]
        used = {d["name"].lower() for d in root["defs"]}

        def fields(n, prefix):
            out = []
            for i in range(n):
                out.append(["f", gen.gen_type(pool), "%s%d" % (prefix, i)])
            return out
        old_items = fields(rng.choice([0, 1, 1, 2, 2, 3]), "o")  # 0: the older revision is a field-less marker type
        if rng.random() < 0.3:
            old_items.insert(rng.randint(0, len(old_items)), ["p", rng.choice([1, 3, 8])])
        new_items = copy.deepcopy(old_items) + fields(rng.randint(1, 3), "n")
        if rng.random() < 0.25:
            new_items.append(["p", rng.choice([8, 16, 24, 3, 13])])  # the newer revision ends in reserved (void) space
        D = {"name": rn + ".Dlm", "ver": [1, 0], "port": None, "ext": "dsdl", "dep": False,
             "secs": [{"union": False, "hdr": None, "items": old_items, "seal": 0}]}
        if D["name"].lower() in used:
            D["name"] = rn + ".Dlmx"
        root["defs"].append(D)
        res_tmp = T.Resolver({T.def_key(d): d for d in root["defs"]})
        inner_old = T.Sec(res_tmp, D, 0).inner_extent
        Dn = copy.deepcopy(D)
        Dn["secs"][0]["items"] = new_items
        inner_new = T.Sec(T.Resolver({**res_tmp.defs, T.def_key(D): Dn}), Dn, 0).inner_extent
        D["secs"][0]["seal"] = max(inner_old, inner_new) + 8 * rng.choice([0, 0, 1, 4])
        dref = ["ref", D["name"], 1, 0]
        conts = []
        sub = lambda: rng.choice([["bool"], ["u", 3, "s"], ["i", 5], ["u", 8, "s"], ["f", 16, "s"], ["u", 17, "t"]])
        conts.append(("CField", False, [["f", sub(), "pre"], ["f", dref, "d"], ["f", sub(), "post1"], ["f", ["u", 16, "s"], "post2"], ["f", ["var", ["u", 8, "s"], 3], "post3"]]))
        conts.append(("CArr", False, [["f", ["arr", dref, rng.randint(2, 3)], "ds"], ["f", sub(), "post"]]))
        conts.append(("CVar", False, [["f", sub(), "pre"], ["f", ["var", dref, rng.randint(1, 3)], "ds"], ["f", ["u", 8, "s"], "post"]]))
        conts.append(("CUni", True, [["f", dref, "d"], ["f", ["u", 8, "s"], "b"], ["f", ["var", dref, 2], "ds"]]))
        for nm, union, items in conts:
            c = {"name": "%s.%s" % (rn, nm), "ver": [1, 0], "port": None, "ext": "dsdl", "dep": False,
                 "secs": [{"union": union, "hdr": None, "items": items, "seal": "sealed"}]}
            if c["name"].lower() in used:
                continue
            root["defs"].append(c)
        wrap = {"name": rn + ".CWrap", "ver": [1, 0], "port": None, "ext": "dsdl", "dep": False,
                "secs": [{"union": False, "hdr": None, "items": [["f", dref, "d"], ["f", ["u", 16, "s"], "post"]], "seal": 0}]}
        root["defs"].append(wrap)
        res2 = T.Resolver({T.def_key(d): d for d in root["defs"]})
        wrap["secs"][0]["seal"] = T.Sec(res2, wrap, 0).inner_extent + 16
        outer = {"name": rn + ".COuter", "ver": [1, 0], "port": None, "ext": "dsdl", "dep": False,
                 "secs": [{"union": False, "hdr": None, "items": [["f", ["bool"], "flag"], ["f", ["ref", wrap["name"], 1, 0], "w"], ["f", ["i", 7], "tail"]], "seal": "sealed"}]}
        root["defs"].append(outer)
        return {"ws": ws, "rev": {"key": T.def_key(D), "items_new": new_items}, "value_seed": rng.randrange(1 << 30), "nvalues": rng.choice([10, 20])}

    def execute(self, scn: dict) -> Outcome:
        from ..worlds.wire import Node, NodeError, apply_fault
        import pydsdl
        out = Outcome()
        ws_old = scn["ws"]
        ws_new = build_new(scn)
        W.validate_ws(ws_old)
        W.validate_ws(ws_new)
        dkey = scn["rev"]["key"]
        uo, un = Universe(ws_old), Universe(ws_new)
        so, sn = uo.res.sec(dkey, 0), un.res.sec(dkey, 0)
        if so.sealed or sn.sealed or so.extent != sn.extent:
            raise InvalidScenario("the revisions must be delimited with equal extent")
        fo = [x for x in so.fields]
        fn = [x for x in sn.fields]
        if fn[: len(fo)] != fo and fo[: len(fn)] != fn:
            raise InvalidScenario("one field list must be a prefix of the other")
        try:
            old, new = Node(ws_old), Node(ws_new)
        except NodeError as ex:
            out.fail("C14.api", "a revision was rejected by the front end: %s" % ex, "frontend-rejected")
            return out
        try:
            containers = [k for k in uo.defs if k != dkey and dkey in uo.closure([k]) and not T.is_service(uo.defs[k])]
            appended = sorted({it[1][0] for it in scn["rev"]["items_new"][len([i for i in so.d["secs"][0]["items"]]):] if it[0] == "f"})
            for k in containers:
                to, tn = old.types[k], new.types[k]
                # API level
                def api(t):
                    b = t.bit_length_set
                    offs = []
                    for f, off in t.iterate_fields_with_offsets():
                        offs.append([f.name, off.min, off.max, sorted(set(off % 64))])
                    return [b.min, b.max, sorted(set(b % 64)), t.extent, offs]
                ao, an = api(to), api(tn)
                if ao != an:
                    out.fail("C14.api", "container %s: layout differs between the revisions: old %s new %s" % (k, ao, an), "api")
                seco, secn = uo.res.sec(k, 0), un.res.sec(k, 0)
                for direction in ("old-to-new", "new-to-old"):
                    wnode, rnode = (old, new) if direction == "old-to-new" else (new, old)
                    wres, rres = wnode.uni.res, rnode.uni.res
                    wsec = wres.sec(k, 0)
                    for i in range(scn["nvalues"]):
                        rng = random.Random(scn["value_seed"] * 1000003 + i * 7919 + len(k) + (1 if direction[0] == "o" else 2))
                        v = V.gen_composite(rng, wsec, in_range=True, p_omit=0.05)
                        try:
                            data = pydsdl.serialize(wnode.types[k], v)
                        except Exception as ex:
                            out.fail("C14." + direction, "%s: the writer (its own revision, valid value %r) raised %s: %s" % (k, v, type(ex).__name__, ex), "writer-raised:" + type(ex).__name__)
                            continue
                        ref_bytes, marks = R.encode(wres, k, 0, v)
                        if data != ref_bytes:
                            out.fail("C14." + direction, "%s: writer bytes differ from the reference peer" % k, "writer-bytes")
                            continue
                        written = R.decode(wres, k, 0, ref_bytes)  # canonical form of what was written
                        expect = R.norm(translate_composite(written, k, wsec, rres.sec(k, 0), wres, rres, dkey))
                        where = "%s %s value %r bytes %s" % (k, direction, v, data.hex())
                        try:
                            got = R.norm(pydsdl.deserialize(rnode.types[k], data))
                        except Exception as ex:
                            out.fail("C14." + direction, "%s: reader raised %s: %s" % (where, type(ex).__name__, ex), "reader-raised:" + type(ex).__name__)
                            continue
                        out.stats["messages:" + direction] += 1
                        if i % 4 == 0:
                            # the reader's result is a value of its own: the receiver may modify it in place; the next reception of
                            # the same data must read the same
                            from .c07 import _scribble
                            try:
                                o1 = pydsdl.deserialize(rnode.types[k], data)
                                _scribble(o1)
                                again = R.norm(pydsdl.deserialize(rnode.types[k], data))
                                if again != got:
                                    out.fail("C14." + direction, "%s: after the receiver modified an earlier result in place, the same data reads as %r (was %r)" % (where, again, got), "result-shared")
                            except Exception as ex:
                                out.fail("C14." + direction, "%s: repeated reception raised %s" % (where, type(ex).__name__), "repeat-raised")
                        peer = R.norm(R.decode(rres, k, 0, data))
                        if got != expect:
                            oracle = "C14.after" if self._only_after_differs(got, expect) else "C14." + direction
                            out.fail(oracle, "%s: reader sees %r, expected %r" % (where, got, expect), direction)
                        elif peer != expect:
                            out.fail("C14." + direction, "%s: reference peer disagrees with the evolution rule (model bug?)" % where, "peer-model")
                        if R.norm(written) != R.norm(R.default_composite(wsec)):
                            out.nontrivial = True
                        # truncation faults on skewed traffic: reference peer agreement
                        for cut in sorted({rng.randint(0, len(data)) for _ in range(3)}):
                            fb = data[:cut]
                            try:
                                g = ("ok", R.norm(pydsdl.deserialize(rnode.types[k], fb)))
                            except (pydsdl.SerDesError, ValueError):
                                g = ("rej", None)
                            except Exception as ex:
                                g = ("crash", type(ex).__name__)
                            try:
                                p = ("ok", R.norm(R.decode(rres, k, 0, fb)))
                            except R.Reject:
                                p = ("rej", None)
                            out.stats["faulted_skewed_messages"] += 1
                            if g != p:
                                out.fail("C14." + direction, "%s truncated to %d bytes: reader %r, reference peer %r" % (where, cut, g, p), "skew-trunc")
                # relay: ONE value object that carries only the fields common to both revisions is written by both writers, in
                # either order (a gateway between an old and a new node does this); each writer must produce its own
                # revision's encoding of that value - nothing a writer does may make the object unusable for the other one
                import copy as _copy
                common_node = old if len(fo) <= len(fn) else new
                csec = common_node.uni.res.sec(k, 0)
                for i in range(3):
                    rng = random.Random(scn["value_seed"] * 7919 + i * 104729 + len(k))
                    v = V.gen_composite(rng, csec, in_range=True, p_omit=0.4)
                    snap = _copy.deepcopy(v)
                    order = [new, old, new] if i % 2 == 0 else [old, new, old]
                    for step, wn in enumerate(order):
                        tag = "new" if wn is new else "old"
                        try:
                            data = pydsdl.serialize(wn.types[k], v)
                        except Exception as ex:
                            out.fail("C14." + ("new-to-old" if tag == "old" else "old-to-new"), "%s: value %r (fields common to both revisions), written by %s before, is rejected by the %s writer: %s: %s" % (
                                k, snap, ["new", "old", "new"][:step] if i % 2 == 0 else ["old", "new", "old"][:step], tag, type(ex).__name__, ex), "relay-writer-raised:" + type(ex).__name__)
                            break
                        ref_bytes, _m = R.encode(wn.uni.res, k, 0, snap)
                        out.stats["relayed_writes"] += 1
                        if data != ref_bytes:
                            out.fail("C14." + ("new-to-old" if tag == "old" else "old-to-new"), "%s: value %r written by the %s writer after other writers had been given the same object: %s, reference %s" % (k, snap, tag, data.hex(), ref_bytes.hex()), "relay-bytes")
                            break
                out.shapes.append(digest([appended, k.rsplit(".", 3)[-3]]))
            # history: in the OLD node's directory the file of D is replaced in place by the other revision (the container files
            # are not touched) and the directory is read again in the same process: the containers now nest the new revision
            from ..model.render import render
            old.world.write(uo.file_of(dkey), render(un.defs[dkey], None)[0])
            ri0 = uo.root_of[dkey]
            res2 = old.world.run_read({"op": "rn", "root": {"p": uo.roots[ri0]["dir"]}, "lookups": [{"p": r0["dir"]} for i0, r0 in enumerate(uo.roots) if i0 != ri0], "key": None, "cwd": ""})
            out.stats["revised_in_place:" + old.world.mtime_policy] += 1
            if not res2["ok"]:
                out.fail("C14.api", "after D was replaced in place by the other revision the directory is rejected: %s: %s" % (type(res2["exc"]).__name__, str(res2["exc"])[:300]), "inplace-rejected:" + type(res2["exc"]).__name__)
            else:
                t2 = {str(t): t for t in res2["direct"]}
                for k in containers:
                    if k not in t2 or k not in new.types:
                        continue
                    rng = random.Random(scn["value_seed"] * 31 + len(k))
                    v = V.gen_composite(rng, un.res.sec(k, 0), in_range=True, p_omit=0.0)
                    try:
                        data = pydsdl.serialize(new.types[k], v)
                        want = R.norm(R.decode(un.res, k, 0, data))
                        got2 = R.norm(pydsdl.deserialize(t2[k], data))
                        again = pydsdl.serialize(t2[k], v)
                    except Exception as ex:
                        out.fail("C14.new-to-old", "%s: after D was replaced in place by the other revision and the directory was read again, value %r of the new revision: %s: %s" % (k, v, type(ex).__name__, str(ex)[:200]), "inplace-raised:" + type(ex).__name__)
                        continue
                    if got2 != want or again != data:
                        out.fail("C14.new-to-old", "%s: after D was replaced in place by the other revision and the directory was read again, the container still behaves like the old revision: reads %r, expected %r" % (k, got2, want), "inplace-stale")
            out.stats["containers"] += len(containers)
            out.obs.append([len(containers), out.stats["messages:old-to-new"]])
        finally:
            old.close()
            new.close()
        return out

    def _only_after_differs(self, got, expect) -> bool:
        return isinstance(got, dict) and isinstance(expect, dict) and any(k.startswith("post") or k == "tail" for k in got if got.get(k) != expect.get(k))


CHECK = C14()
