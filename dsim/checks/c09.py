"""C09 - versioned references resolve to exactly the named definition or fail cleanly (World W)."""
from __future__ import annotations
import copy
import random
from ..core.scenario import digest
from ..model import gen as G
from ..model import types as T
from ..model.namespace import Universe
from .base import Check, Outcome, InvalidScenario
from . import wcommon as W

DEFECTS = ["missing", "missver", "self", "cycle2", "cycle3", "cycle_expr", "case_short", "case_ns", "case_root", "dup", "case_twin", "case_twin", "self_twin", "self_twin", "rel_outer", "rel_outer", "dup_ext", "dup_ext"]


def apply_defect(ws: dict, df: dict) -> tuple[dict, set[str]]:
    """Returns (mutated workspace, keys of definitions that carry a bad reference)."""
    ws = copy.deepcopy(ws)
    uni = Universe(ws)
    kind = df["kind"]
    bad: set[str] = set()

    def add_field(key: str, t: list, name: str = "zz_ref") -> None:
        d = uni.defs[key]
        s = d["secs"][df.get("sec", 0) % len(d["secs"])]
        s["items"].append(["f", t, name])
        if isinstance(s.get("seal"), int):
            s["seal"] = s["seal"] + 8 * 4096  # keep the extent rule out of the way
        bad.add(key)

    at = df["at"]
    if at not in uni.defs:
        raise InvalidScenario("defect site unknown")
    d = uni.defs[at]
    root = d["name"].split(".")[0]
    if kind == "missing":
        if df.get("like"):
            # the missing name has a LOOK-ALIKE: a definition whose full name equals the reference with one separator dot replaced by
            # another character (root.q.Nope is missing, root.q_Nope exists) - still a missing reference
            glue = ["_", "x", "9", "Q"][df["like"] % 4]
            taken = {x["name"].lower() for x in uni.defs.values()}
            like = "%s.q%sNope" % (root, glue)
            if like.lower() in taken or any(t0 == (root + ".q").lower() or t0.startswith((root + ".q.").lower()) for t0 in taken):
                raise InvalidScenario("look-alike name taken")
            for r0 in ws["roots"]:
                if r0["name"] == root and not r0.get("dup"):
                    r0["defs"].append({"name": like, "ver": [1, 0], "port": None, "ext": "dsdl", "dep": bool(d.get("dep")),
                                       "secs": [{"union": False, "hdr": None, "items": [["f", ["u", 8, "s"], "look_alike"]], "seal": "sealed"}]})
                    break
            add_field(at, ["ref", root + ".q.Nope", 1, 0])
        else:
            add_field(at, ["ref", root + ".Nope", 1, 0])
    elif kind == "missver":
        tgt = uni.defs[df["to"]]
        vers = {tuple(x["ver"]) for x in uni.defs.values() if x["name"] == tgt["name"]}
        v = None
        if df.get("alias"):
            # a version outside 0..255 that would alias an existing one if major and minor were packed into one number
            M, m = tgt["ver"]
            cands = [[M - 1, m + 256]] if M >= 1 else []
            cands += [[M, m + 256], [M + 256, m], [M - 2, m + 512] if M >= 2 else [M, m + 512]]
            v = cands[df["alias"] % len(cands)]
        for delta in (7, 11, 13, 17, 19, 23, 29, 31) if v is None else ():
            cand = [tgt["ver"][0], (tgt["ver"][1] + delta) % 256]
            if tuple(cand) not in vers and tuple(cand) != (0, 0):
                v = cand
                break
        if v is None:
            raise InvalidScenario("no free version")
        add_field(at, ["ref", tgt["name"], v[0], v[1]])
    elif kind == "self":
        add_field(at, ["ref", d["name"], d["ver"][0], d["ver"][1]] + (["rel"] if df.get("rel") else []))
    elif kind in ("cycle2", "cycle3", "cycle_expr"):
        chain = [at] + list(df["via"])
        if len(set(chain)) != len(chain) or any(k not in uni.defs for k in chain):
            raise InvalidScenario("bad cycle")
        for i, k in enumerate(chain):
            nxt = uni.defs[chain[(i + 1) % len(chain)]]
            if T.is_service(nxt):
                raise InvalidScenario("cycle through a service")
            if kind == "cycle_expr" and i == 0:
                dd = uni.defs[k]
                dd["secs"][0]["items"].append(["raw", "@assert %s.%d.%d._extent_ >= 0" % (nxt["name"], nxt["ver"][0], nxt["ver"][1]), [T.def_key(nxt)]])
                bad.add(k)
            else:
                add_field(k, ["ref", nxt["name"], nxt["ver"][0], nxt["ver"][1]], "zz_ref%d" % i)
    elif kind in ("case_short", "case_ns", "case_root"):
        tgt = uni.defs[df["to"]]
        comps = tgt["name"].split(".")
        idx = {"case_short": len(comps) - 1, "case_root": 0, "case_ns": 1 if len(comps) > 2 else len(comps) - 1}[kind]
        alt = comps[idx].swapcase()
        if alt == comps[idx]:
            raise InvalidScenario("no letters to swap")
        comps[idx] = alt
        add_field(at, ["ref", ".".join(comps), tgt["ver"][0], tgt["ver"][1]])
    elif kind == "dup":
        tgt = copy.deepcopy(uni.defs[df["to"]])
        rname = tgt["name"].split(".")[0]
        ws["roots"].append({"dir": "w/dx/" + rname, "name": rname, "defs": [tgt], "dup": True})
        add_field(at, ["ref", tgt["name"], tgt["ver"][0], tgt["ver"][1]])
    elif kind == "dup_ext":
        # the referenced definition exists twice in ONE directory: Name.M.m.dsdl and the legacy Name.M.m.uavcan (or a file with
        # a port-ID prefix), with different contents - two definitions with the same name and version; the second file is
        # written by the caller (see execute)
        tgt = uni.defs[df["to"]]
        add_field(at, ["ref", tgt["name"], tgt["ver"][0], tgt["ver"][1]])
    elif kind == "self_twin":
        # a self reference, while ANOTHER file with the same name and version (without the self reference) sits in a second
        # directory that contributes to the same root namespace: the reference must not be satisfied by that twin
        if T.is_service(d):
            raise InvalidScenario("self reference to a service")
        twin = copy.deepcopy(d)
        twin["port"] = None
        rname = d["name"].split(".")[0]
        ws["roots"].append({"dir": "w/dx/" + rname, "name": rname, "defs": [twin], "dup": True})
        add_field(at, ["ref", d["name"], d["ver"][0], d["ver"][1]] + (["rel"] if df.get("rel") else []))
    elif kind == "rel_outer":
        # a name without dots is relative to the referrer's OWN namespace only: a definition of that short name in an enclosing
        # namespace (or anywhere else) must not be picked up
        comps = d["name"].split(".")
        own_ns = ".".join(comps[:-1])
        cands = []
        for x in uni.defs.values():
            xc = x["name"].split(".")
            xns = ".".join(xc[:-1])
            if T.is_service(x) or not (own_ns.startswith(xns + ".")) or (x.get("dep") and not d.get("dep")):
                continue
            if any(y["name"].lower() == (own_ns + "." + xc[-1]).lower() and y["ver"] == x["ver"] for y in uni.defs.values()):
                continue
            cands.append(x)
        if not cands:
            raise InvalidScenario("no definition in an enclosing namespace")
        x = sorted(cands, key=lambda y: T.def_key(y))[df.get("how", 0) % len(cands)]
        s0 = d["secs"][df.get("sec", 0) % len(d["secs"])]
        s0["items"].append(["raw", "%s.%d.%d zz_rel_outer" % (x["name"].split(".")[-1], x["ver"][0], x["ver"][1]), []])
        if isinstance(s0.get("seal"), int):
            s0["seal"] = s0["seal"] + 8 * 4096
        bad.add(at)
    elif kind == "case_twin":
        # two definitions whose names differ only by letter case exist side by side (case-sensitive file system), with other
        # definitions sorting between them; a reference to either spelling differs from an existing name only by letter case
        tgt = uni.defs[df["to"]]
        twin = copy.deepcopy(tgt)
        comps = tgt["name"].split(".")
        alt = comps[-1].swapcase() if df.get("how", 0) % 2 == 0 else (comps[-1][0].lower() + comps[-1][1:])
        if alt == comps[-1] or ".".join(comps[:-1] + [alt]).lower() != tgt["name"].lower():
            raise InvalidScenario("no letters to swap")
        twin["name"] = ".".join(comps[:-1] + [alt])
        twin["port"] = None
        if any(x["name"] == twin["name"] for x in uni.defs.values()):
            raise InvalidScenario("twin exists")
        ws["roots"][uni.root_of[df["to"]]]["defs"].append(twin)
        name = tgt["name"] if df.get("spell", 0) % 2 == 0 else twin["name"]
        add_field(at, ["ref", name, tgt["ver"][0], tgt["ver"][1]])
    else:
        raise InvalidScenario("unknown defect")
    return ws, bad


class C09(Check):
    PROP = "C09"
    CRASH_ORACLE = "C09.target"
    HANG_ORACLE = "C09.terminates"
    RULE = ("each run = one generated dependency graph (chains, diamonds, fans, several versions per name, relative and "
            "absolute spellings, cross-root edges), read through read_namespace per root and through read_files with target "
            "subsets in several orders, plus one stand-alone read per definition; 40% of the runs plant one reference defect "
            "(missing name / missing version / self reference / cycle of length 2-3 through fields or through a type "
            "expression / letter-case mismatch in short name, namespace or root / the same name+version in two lookup "
            "directories). The reach order of every dependency (first as target, first through a referrer, through several "
            "referrers, promotion) is decided by the seeded names and target subsets. distinct = hash of (edge count bucket, "
            "max depth, op kinds, defect kind, #distinct open-order signatures); non-trivial = graph has >= 2 edges and >= 2 "
            "different open-order signatures were produced")
    RULE = RULE + "; " + 'rounds 7-8: missing versions that alias an existing one when packed; types whose namespace repeats their own short name referring without dots to a sibling'
    TIERS = {"quick": {"runs": 800, "budget_s": 50}, "thorough": {"runs": 40000, "budget_s": 1200}}

    def generate(self, rng: random.Random, r: int, tier: str) -> dict:
        ws = G.gen_workspace(rng, roots=(1, 3), defs=(3, 9), p_ref=0.7, p_family=0.4, p_cross_root=0.6, p_service=0.1, max_fields=4)
        if rng.random() < 0.2:
            # a type whose namespace repeats (or starts with) its own short name - ns/thing/thing.1.0.dsdl, ns/Statuses/Status.1.0.dsdl -
            # that refers without dots to a sibling in its own namespace, while the enclosing namespace holds a type of that short
            # name with another body (or, one time in three, the sibling is missing from the enclosing namespace only)
            r0 = ws["roots"][0]
            rn = r0["name"]
            taken = {d0["name"].lower() for d0 in r0["defs"]}
            sh = rng.choice(["thing", "Foo", "Status", "x9", "Node"])
            nsc = sh + rng.choice(["", "", "es", "_", "2"])
            mid = rng.choice(["", "", ".deep"])
            base = rn + mid + "." + nsc
            sib = rng.choice(["Part", "Code", "Bar"])
            names = [base + "." + sh, base + "." + sib, rn + mid + "." + sib]
            clash = any(n0.lower() in taken or any(t0.startswith(n0.lower() + ".") or n0.lower().startswith(t0 + ".") for t0 in taken) for n0 in names + [base])
            if not clash:
                def mk(name, items):
                    return {"name": name, "ver": [1, 0], "port": None, "ext": "dsdl", "dep": False, "secs": [{"union": False, "hdr": None, "items": items, "seal": "sealed"}]}
                r0["defs"].append(mk(names[1], [["f", ["u", 8, "s"], "inner_sibling"]]))
                if rng.random() < 0.67:
                    r0["defs"].append(mk(names[2], [["f", ["u", 16, "s"], "outer_namesake"], ["f", ["u", 16, "s"], "more"]]))
                r0["defs"].append(mk(names[0], [["f", ["ref", names[1], 1, 0, "rel"], "sibling"], ["f", ["u", 8, "s"], "tail"]]))
        uni = Universe(ws)
        nroots = len(ws["roots"])
        scn: dict = {"ws": ws, "symlinks": W.symlinks_for(ws), "reads": [], "defect": None}
        keys = list(uni.defs)
        msgs = [k for k in keys if not T.is_service(uni.defs[k])]
        if rng.random() < 0.4 and msgs:
            kind = rng.choice(DEFECTS)
            at = rng.choice(keys)
            df = {"kind": kind, "at": at, "sec": rng.randrange(2)}
            others = [k for k in msgs if k != at]
            ok = True
            if kind == "missver" and rng.random() < 0.4:
                df["alias"] = rng.randrange(1, 8)
            if kind == "missing" and rng.random() < 0.5:
                df["like"] = rng.randrange(1, 9)
            if kind == "case_twin":
                df["how"], df["spell"] = rng.randrange(2), rng.randrange(2)
            if kind == "dup_ext":
                df["how"] = rng.randrange(4)
            if kind in ("missver", "case_short", "case_ns", "case_root", "dup", "case_twin", "dup_ext"):
                if others:
                    df["to"] = rng.choice(others)
                else:
                    ok = False
            if kind == "rel_outer":
                df["how"] = rng.randrange(8)
                deep = [k for k in keys if len(uni.defs[k]["name"].split(".")) >= 3]
                if deep:
                    df["at"] = rng.choice(deep)
                else:
                    ok = False
            if kind in ("self", "self_twin"):
                if T.is_service(uni.defs[at]):
                    ok = False
                df["rel"] = rng.random() < 0.5
            if kind in ("cycle2", "cycle3", "cycle_expr"):
                n = 2 if kind != "cycle3" else 3
                if at in msgs and len(others) >= n - 1:
                    df["via"] = rng.sample(others, n - 1)
                else:
                    ok = False
            if ok:
                try:
                    apply_defect(ws, df)
                except InvalidScenario:
                    ok = False
            if ok:
                scn["defect"] = df
        for ri in range(nroots):
            scn["reads"].append(W.rn_op(rng, uni, ri, [x for x in range(nroots) if x != ri]))
        for _ in range(rng.randint(2, 3)):
            targets = rng.sample(keys, rng.randint(1, min(4, len(keys))))
            troots = {uni.root_of[k] for k in targets}
            scn["reads"].append(W.rf_op(rng, uni, targets, [x for x in range(nroots) if x not in troots]))
        rng.shuffle(scn["reads"])
        if scn["defect"] is None and rng.random() < 0.6:
            # history: the same referrer is read again in the same process with a *different lookup set*: the root that holds one
            # of its dependencies is withheld (must fail), replaced by another directory of the same namespace in which that
            # dependency has a different body (must resolve to that one), and given back (must resolve to the original again)
            cross = [(a, b) for a in keys for b in T.def_refs(uni.defs[a]) if b in uni.defs and uni.root_of[a] != uni.root_of[b]
                     and uni.roots[uni.root_of[a]]["name"].lower() != uni.roots[uni.root_of[b]]["name"].lower()]
            if cross:
                a, b = rng.choice(cross)
                scn["alt"] = {"from": a, "to": b, "order": rng.choice(["withheld,alt,orig", "alt,orig,withheld", "alt,withheld,orig", "orig,alt,orig"]), "key": rng.randrange(1 << 30)}
        if rng.random() < 0.4:
            # callers reuse their argument lists: every read of this run receives the same lookup list object (all roots)
            for op in scn["reads"]:
                op["lookups"] = [{"p": r0["dir"]} for r0 in ws["roots"]]
                op["share_lookups"] = "all-roots"
        return scn

    def execute(self, scn: dict) -> Outcome:
        from ..worlds.workspace import World, classify_exc
        from ..worlds import realcanon
        import pydsdl
        out = Outcome()
        W.validate_ws(scn["ws"])
        bad: set[str] = set()
        ws = scn["ws"]
        df = scn.get("defect")
        if df:
            ws, bad = apply_defect(ws, df)
        scn2 = dict(scn, ws=ws)
        if df and df["kind"] == "dup_ext":
            u0 = Universe(ws)
            tgt = u0.defs[df["to"]]
            path = u0.file_of(df["to"])
            d0, fn = path.rsplit("/", 1)
            short = tgt["name"].split(".")[-1]
            stem = "%s.%d.%d" % (short, tgt["ver"][0], tgt["ver"][1])
            other_ext = "uavcan" if tgt.get("ext", "dsdl") == "dsdl" else "dsdl"
            twin_name = [stem + "." + other_ext, stem + "." + other_ext, ("%d." % (tgt["port"] + 1 if tgt.get("port") is not None else 7001)) + stem + "." + tgt.get("ext", "dsdl"), stem + "." + other_ext][df.get("how", 0) % 4]
            if twin_name == fn:
                raise InvalidScenario("twin has the name of the original")
            scn2["extra_files"] = list(scn.get("extra_files", [])) + [[d0 + "/" + twin_name, "uint64 other_body_of_the_twin\n@sealed\n"]]
        w = World(scn2)
        try:
            uni = w.uni
            nbase = len(scn["ws"]["roots"])
            dup_dirs = [r["dir"] for r in uni.roots[nbase:]]
            standalone: dict[str, str] = {}
            edges = sum(len(T.def_refs(d)) for d in uni.defs.values())

            def depth(k, seen=()):
                if k in seen or k not in uni.defs:
                    return 0
                return 1 + max([depth(x, seen + (k,)) for x in T.def_refs(uni.defs[k])] or [0])
            maxdepth = max([depth(k) for k in uni.defs] or [0])

            def poisoned(keys) -> bool:
                if not bad:
                    return False
                return bool(uni.closure(keys) & bad)

            def extra_lookups(op):
                if dup_dirs:
                    op = dict(op)
                    op.pop("share_lookups", None)
                    lk = op.get("lookups") or []
                    lk = [lk] if isinstance(lk, dict) else list(lk)
                    op["lookups"] = lk + [{"p": d, "st": "abs", "ty": "p"} for d in dup_dirs]
                return op

            # stand-alone reads (the reference for "equal to what reading that definition on its own yields")
            base_uni = Universe(scn["ws"])
            for k in base_uni.defs:
                if poisoned([k]) or (df and df["kind"] in ("dup", "case_twin", "self_twin", "dup_ext")):
                    continue
                ri = base_uni.root_of[k]
                op = {"op": "rf", "files": [{"p": base_uni.file_of(k)}], "roots": [{"p": base_uni.roots[ri]["dir"]}],
                      "lookups": [{"p": r["dir"]} for i, r in enumerate(uni.roots) if i != ri], "key": None, "cwd": ""}
                res = w.run_read(op)
                if not res["ok"]:
                    out.fail("C09.standalone", "stand-alone read of %s rejected: %s: %s" % (k, type(res["exc"]).__name__, res["exc"]), "standalone-rejected:" + type(res["exc"]).__name__)
                    continue
                c = realcanon.Canon(w.scratch)
                standalone[k] = digest(c.composite(res["direct"][0]))
                m = realcanon.Matcher(uni.res)
                m.message(k, k, res["direct"][0], docs=False)
                if m.bad:
                    out.fail("C09.target", "stand-alone read of %s differs from the model: %s" % (k, "; ".join(m.bad[:3])))
            sigs = set()
            for i, op in enumerate(scn["reads"]):
                targets, vis = W.op_targets(base_uni, op)
                op2 = extra_lookups(op)
                res = w.run_read(op2)
                sigs.add(digest(w.open_logs[-1]))
                out.stats["reads"] += 1
                must_fail = poisoned(targets)
                out.obs.append([i, "ok" if res["ok"] else classify_exc(res["exc"]), must_fail])
                if must_fail:
                    out.stats["defect_reached"] += 1
                    if res["ok"]:
                        out.fail("C09.clean-failure", "read %d: closure contains a %s reference defect at %s but the call returned" % (i, df["kind"], sorted(bad)), "returned:" + df["kind"])
                    elif classify_exc(res["exc"]) != "IDE":
                        out.fail("C09.clean-failure", "read %d: %s defect reported as %s: %s" % (i, df["kind"], type(res["exc"]).__name__, str(res["exc"])[:300]), "%s:%s" % (df["kind"], type(res["exc"]).__name__))
                    continue
                if df and df["kind"] in ("dup", "case_twin", "self_twin", "dup_ext"):
                    continue  # reads that do not reference the duplicated / case-colliding name: unspecified
                if not res["ok"]:
                    out.fail("C09.target", "read %d: valid graph rejected: %s: %s" % (i, type(res["exc"]).__name__, str(res["exc"])[:400]), "rejected:" + type(res["exc"]).__name__)
                    continue
                # every composite reachable through Field.data_type
                c = realcanon.Canon(w.scratch)
                seen: set[int] = set()
                m = realcanon.Matcher(uni.res)

                def walk(t, via: str):
                    if isinstance(t, pydsdl.ArrayType):
                        return walk(t.element_type, via)
                    if not isinstance(t, pydsdl.CompositeType) or id(t) in seen:
                        return
                    seen.add(id(t))
                    k = str(t)
                    if isinstance(t, pydsdl.ServiceType):
                        parts = [t.request_type, t.response_type]
                    else:
                        parts = [t]
                    if not t.has_parent_service:
                        out.stats["nested_checked"] += 1
                        if k in standalone and digest(c.composite(t)) != standalone[k]:
                            out.fail("C09.standalone", "read %d: %s reached via %s differs from its stand-alone read" % (i, k, via))
                        if k in uni.defs:
                            m.message(via + ">" + k, k, t, docs=False)
                        else:
                            out.fail("C09.target", "read %d: %s reached via %s is not a definition of the workspace" % (i, k, via))
                    for p in parts:
                        for f in p.fields:
                            walk(f.data_type, k)
                for t in list(res["direct"]) + list(res["transitive"] or []):
                    walk(t, "<top>")
                if m.bad:
                    out.fail("C09.target", "read %d: %s" % (i, "; ".join(m.bad[:3])))
            if scn.get("alt") and not df:
                self._alt_lookup_phase(out, w, uni, scn["alt"])
            for mm in w.mutated_shared_args():
                out.fail("C09.target", "a list passed as lookup_directories to several calls was modified by the calls (later resolutions depend on earlier calls): " + mm, "argument-mutated")
            out.stats["open_order_signatures"] += len(sigs)
            out.nontrivial = edges >= 2 and len(sigs) >= 2
            out.shape = digest([min(edges, 8) // 2, maxdepth, sorted(o["op"] for o in scn["reads"]), df["kind"] if df else None, min(len(sigs), 4)])
            if df:
                out.stats["defect:" + df["kind"]] += 1
        finally:
            w.close()
        return out


    def _alt_lookup_phase(self, out, w, uni, alt) -> None:
        from ..worlds.workspace import classify_exc
        from ..worlds import realcanon
        from ..model.render import render
        a, b = alt["from"], alt["to"]
        if a not in uni.defs or b not in uni.defs or b not in T.def_refs(uni.defs[a]) or uni.root_of[a] == uni.root_of[b] or T.is_service(uni.defs[b]):
            raise InvalidScenario("alt phase needs a cross-root edge to a message")
        ri, rj = uni.root_of[a], uni.root_of[b]
        if any(i != rj and r0["name"].lower() == uni.roots[rj]["name"].lower() for i, r0 in enumerate(uni.roots)):
            raise InvalidScenario("split root")
        ws_alt = copy.deepcopy(w.scn["ws"])
        ws_alt["roots"][rj]["dir"] = "w/dy/" + uni.roots[rj]["name"]
        for d in ws_alt["roots"][rj]["defs"]:
            if T.def_key(d) == b:
                names = {it[2].lower() for s0 in d["secs"] for it in s0["items"] if it[0] in ("f", "c")}
                if "alt_mark" in names:
                    raise InvalidScenario("name taken")
                d["secs"][0]["items"].append(["c", ["u", 8, "s"], "ALT_MARK", "77", [77, 1]])
        uni_alt = Universe(ws_alt)
        for k in uni_alt.keys_of_root(rj):
            w.write(uni_alt.file_of(k), render(uni_alt.defs[k], None)[0])
        others = [x for x in range(len(uni.roots)) if x not in (ri, rj)]
        base = {"op": "rn", "root": {"p": uni.roots[ri]["dir"]}, "cwd": "", "key": alt.get("key")}
        for step in alt["order"].split(","):
            lk = [{"p": uni.roots[x]["dir"]} for x in others]
            if step == "orig":
                lk.append({"p": uni.roots[rj]["dir"]})
            elif step == "alt":
                lk.append({"p": ws_alt["roots"][rj]["dir"]})
            res = w.run_read(dict(base, lookups=lk))
            out.stats["alt_lookup_reads:" + step] += 1
            out.obs.append(["alt", step, "ok" if res["ok"] else classify_exc(res["exc"])])
            if step == "withheld":
                if res["ok"]:
                    out.fail("C09.clean-failure", "%s refers to %s, whose root namespace directory was not among the lookup directories of this call (it had been in earlier calls of the same process), but the call returned" % (a, b), "withheld-returned")
                elif classify_exc(res["exc"]) != "IDE":
                    out.fail("C09.clean-failure", "withheld lookup reported as %s" % type(res["exc"]).__name__, "withheld:" + type(res["exc"]).__name__)
                continue
            if not res["ok"]:
                out.fail("C09.target", "read with the %s lookup directory rejected: %s: %s" % (step, type(res["exc"]).__name__, str(res["exc"])[:300]), "alt-rejected:" + type(res["exc"]).__name__)
                continue
            m = realcanon.Matcher((uni_alt if step == "alt" else uni).res)
            for t in res["direct"]:
                if str(t) in uni.defs:
                    m.message(str(t), str(t), t, docs=False)
            if m.bad:
                out.fail("C09.target", "read of %s with the %s directory of namespace %s as lookup (sequence %s in one process): %s" % (uni.roots[ri]["name"], "alternative" if step == "alt" else "original", uni.roots[rj]["name"], alt["order"], "; ".join(m.bad[:3])), "alt-lookup:" + step)


CHECK = C09()
