"""C18 - model objects are immutable values with a sound equality / hash / pickle contract (World V)."""
from __future__ import annotations
import copy
import pickle
import random
from ..core.scenario import digest
from ..model import gen as G
from ..model import mutate as MU
from ..model import types as T
from ..model.namespace import Universe
from .base import Check, Outcome, InvalidScenario
from . import wcommon as W

ACCESSORS = ["attributes", "fields", "fields_except_padding", "constants", "name_components", "namespace_components"]
MUTATIONS = ["append", "clear", "reverse", "replace", "pop", "extend", "rotate"]
_PEER = [None]


class C18(Check):
    PROP = "C18"
    CRASH_ORACLE = "C18.alias"
    WORLD = "V"
    RULE = ("each run = one generated workspace read twice independently (plus a copy with one minimally mutated definition), from "
            "which composites, services' request / response, nested types, arrays, primitives, fields, paddings, constants, "
            "expression values and bit length sets are harvested; a seeded history of operations follows: call a list-returning "
            "accessor, mutate the returned list in place (append / clear / reverse / replace / pop / extend / sort), re-query "
            "everything; compare independently built equal objects (==, hash, reflexive, symmetric) and objects differing in "
            "kind / string / length set (must be unequal); pickle every object, hand the bytes to a second interpreter started "
            "under a different PYTHONHASHSEED, compare description, str, ==, hash there, pickle back and compare again here. "
            "distinct = hash of (object class, accessor, mutation) / (class pair, relation) / (class, pickled); non-trivial = a "
            "composite with >= 2 attributes or a cross-interpreter round trip took place")
    RULE = RULE + "; " + 'rounds 7-8: bit length sets against plain containers and ranges (exact / ragged stop); objects kept from a read vs objects read after an in-place edit; structures with 40 / 70 / 160 / 200 fields through pickle (160 / 200: known finding F20)'
    TIERS = {"quick": {"runs": 480, "budget_s": 50}, "thorough": {"runs": 30000, "budget_s": 900}}
    REAL_VS_STUB = "real: pydsdl model objects, pickle, a second CPython interpreter with another hash seed; simulated: client mutation history, query order; stubbed: nothing"

    def warmup(self) -> None:
        pass

    def generate(self, rng: random.Random, r: int, tier: str) -> dict:
        ws = G.gen_workspace(rng, roots=(1, 2), defs=(2, 6), p_ref=0.5, p_const=0.5, p_doc=0.3, p_service=0.25, p_pad=0.2)
        # make sure character constants occur (uint8 constants spelled 'c' are stored as their code point)
        for r0 in ws["roots"]:
            for d0 in r0["defs"]:
                s0 = d0["secs"][0]
                if rng.random() < 0.4 and not any(it[0] in ("f", "c") and it[2].lower() == "sep" for it in s0["items"]):
                    ch = rng.choice(",;:aZ09 ~")
                    s0["items"].append(["c", ["u", 8, rng.choice("st")], "SEP", ("'%s'" % ch) if rng.random() < 0.6 else str(ord(ch)), [ord(ch), 1]])
        hist = []
        for _ in range(rng.randint(10, 25)):
            hist.append([rng.randrange(1 << 16), rng.choice(ACCESSORS), rng.choice(MUTATIONS)])
        return {"ws": ws, "history": hist, "mut": {"m": rng.randrange(len(MU.ABSTRACT)), "seed": rng.randrange(1 << 30)}, "pick_seed": rng.randrange(1 << 30)}

    def execute(self, scn: dict) -> Outcome:
        out = Outcome()
        try:
            return self._execute(scn, out)
        except InvalidScenario:
            raise
        except Exception:
            if out.viol:
                return out  # objects already proven corrupted by a hostile mutation keep failing later on
            raise

    def _execute(self, scn: dict, out: Outcome) -> Outcome:
        from ..worlds.wire import Node, NodeError
        from ..worlds.values import describe, Peer
        import pydsdl
        W.validate_ws(scn["ws"])
        if _PEER[0] is None:
            _PEER[0] = Peer()
        peer = _PEER[0]
        try:
            a, b = Node(scn["ws"]), Node(scn["ws"])
        except NodeError as ex:
            raise InvalidScenario("front end rejected: %s" % ex)
        nodes = [a, b]
        try:
            # a minimally different workspace (one abstract mutation that keeps it valid)
            ws2 = copy.deepcopy(scn["ws"])
            lab = MU.ABSTRACT[scn["mut"]["m"] % len(MU.ABSTRACT)](random.Random(scn["mut"]["seed"]), ws2)
            c = None
            if lab:
                try:
                    from ..model import rules
                    if not rules.workspace_problems(Universe(ws2)):
                        c = Node(ws2)
                        nodes.append(c)
                except NodeError:
                    c = None
                except (AssertionError, ValueError, KeyError, TypeError):
                    c = None  # the mutation left the abstract language's domain (e.g. a negative extent): no second workspace

            from ..worlds.values import harvest as _harvest, rebuild, CONTAINERS

            def harvest(node):
                return _harvest(node.types)
            # the same model from a different but equivalent spelling of every constant initializer ('a' <-> 97, hex <-> dec)
            ws3 = copy.deepcopy(scn["ws"])
            respelled = 0
            for r0 in ws3["roots"]:
                for d0 in r0["defs"]:
                    for s0 in d0["secs"]:
                        for it in s0["items"]:
                            if it[0] == "c" and it[1][0] in ("u", "i") and isinstance(it[4], list) and it[4][1] == 1:
                                v = it[4][0]
                                if it[3].startswith("'"):
                                    it[3] = str(v)
                                elif it[1][0] == "u" and it[1][1] == 8 and 32 <= v < 127 and chr(v) not in "'\\":
                                    it[3] = "'%s'" % chr(v)
                                elif v >= 0:
                                    it[3] = hex(v) if not it[3].startswith("0x") else str(v)
                                else:
                                    continue
                                respelled += 1
            e = None
            if respelled:
                e = Node(ws3)
                nodes.append(e)
            oa, ob = harvest(a), harvest(b)
            if e is not None:
                de = {k: o for k, o in harvest(e)}
                for k, o in oa:
                    p = de.get(k)
                    if p is None or isinstance(o, pydsdl.BitLengthSet):
                        continue
                    try:
                        if not (o == p) or not (p == o):
                            out.fail("C18.eqhash", "%s: the same model built from an equivalent spelling of a constant is unequal (%s vs %s)" % (k, o, p), "respell-eq:" + type(o).__name__)
                        elif hash(o) != hash(p):
                            out.fail("C18.eqhash", "%s: equal objects (%s) built from equivalent spellings of a constant have different hashes" % (k, o), "respell-hash:" + type(o).__name__)
                    except Exception as ex:
                        out.fail("C18.eqhash", "%s: ==/hash raised %s" % (k, type(ex).__name__), "eq-raised3")
                    out.stats["respelled_pairs"] += 1
            da = {k: o for k, o in oa}
            db = {k: o for k, o in ob}
            # (1) hostile client mutation histories on node a's composites
            comps = [(k, o) for k, o in oa if isinstance(o, pydsdl.CompositeType)]
            for salt, acc, mut in scn["history"]:
                if not comps:
                    break
                k, o = comps[salt % len(comps)]
                before = digest(describe(o))
                try:
                    lst = getattr(o, acc)
                except Exception as ex:
                    out.fail("C18.alias", "%s.%s raised %s" % (k, acc, type(ex).__name__), "accessor-raised")
                    continue
                if not isinstance(lst, list):
                    continue
                snapshot = list(lst)
                try:
                    if mut == "append":
                        lst.append(lst[0] if lst else "X")
                    elif mut == "clear":
                        lst.clear()
                    elif mut == "reverse":
                        lst.reverse()
                    elif mut == "replace" and lst:
                        lst[0] = lst[-1] if len(lst) > 1 else "Replaced"
                    elif mut == "pop" and lst:
                        lst.pop()
                    elif mut == "extend":
                        lst.extend(snapshot)
                    elif mut == "rotate":
                        lst.append(lst.pop(0)) if lst else None
                except Exception:
                    pass
                changed = lst != snapshot
                try:
                    after = digest(describe(o))
                    again = getattr(o, acc)
                except Exception as ex:
                    out.fail("C18.alias", "%s (%s): after mutating the list returned by .%s (%s) the object is broken: %s: %s" % (k, type(o).__name__, acc, mut, type(ex).__name__, ex), "alias:" + acc)
                    comps = [(k2, o2) for k2, o2 in comps if o2 is not o]
                    continue
                out.stats["mutations"] += 1
                out.shapes.append(digest(["alias", type(o).__name__, acc, mut]))
                if len(getattr(o, "attributes", [])) >= 2:
                    out.nontrivial = True
                if after != before or list(again) != snapshot:
                    out.fail("C18.alias", "%s (%s): mutating the list returned by .%s (%s) changed the object: %s -> %s" % (k, type(o).__name__, acc, mut, snapshot if len(str(snapshot)) < 200 else "...", list(again) if len(str(again)) < 200 else "..."),
                             "alias:" + acc)
                out.obs.append([k, acc, mut, changed])
            # (1b) constructor arguments: an object built through a public constructor from a caller's collection must neither
            # share it (later mutation of the caller's list / set must not reach the object) nor depend on the kind of iterable
            nrebuilt = 0
            for (salt, acc, mut), (k, o) in zip(scn["history"], [c0 for c0 in comps if not isinstance(c0[1], pydsdl.ServiceType)][:4]):
                kind = CONTAINERS[salt % len(CONTAINERS)]
                try:
                    new, arg = rebuild(o, kind)
                except Exception as ex:
                    out.fail("C18.alias", "%s (%s): the public constructor rejected the object's own attributes handed over as a %s: %s: %s" % (k, type(o).__name__, kind, type(ex).__name__, ex), "ctor-raised:" + kind)
                    continue
                nrebuilt += 1
                want = digest(describe(o))
                if digest(describe(new)) != want or not (new == o) or hash(new) != hash(o):
                    out.fail("C18.eqhash", "%s (%s): rebuilt through the public constructor from its own attributes (handed over as a %s) it differs from / is unequal to the original" % (k, type(o).__name__, kind), "ctor-differs:" + kind)
                    continue
                if isinstance(arg, list):
                    arg.reverse() if mut == "reverse" else arg.clear() if mut in ("clear", "pop") else arg.append(arg[0]) if arg else arg.append("X")
                    try:
                        after = digest(describe(new))
                    except Exception as ex:
                        after = "raised %s" % type(ex).__name__
                    if after != want:
                        out.fail("C18.alias", "%s (%s): mutating the list that was passed to the constructor as `attributes` changed the object" % (k, type(o).__name__), "alias:ctor-attributes")
                out.shapes.append(digest(["ctor", type(o).__name__, kind]))
            out.stats["rebuilt_through_public_constructor"] += nrebuilt
            for k, o in [x for x in oa if isinstance(x[1], pydsdl.BitLengthSet)][:3]:
                from ..worlds.realcanon import safe_expand
                if o.max - o.min > 4096:
                    continue
                members = safe_expand(o, 100000)
                if members is None or len(members) > 300:
                    continue
                s1, s2, s3 = set(members), {0, 8}, {16, 24}
                built = {"BitLengthSet(s)": pydsdl.BitLengthSet(s1), "bls + s": o + s2, "bls | s": o | s3, "concatenate": o.concatenate(s2), "unite": o.unite(s3)}
                before = {n: [x.min, x.max, sorted(x), str(x), hash(x), sorted(x % 7)] for n, x in built.items()}
                s1.add(max(members) + 1001)
                s1.discard(min(members))
                s2.add(5)
                s3.clear()
                for n, x in built.items():
                    try:
                        now = [x.min, x.max, sorted(x), str(x), hash(x), sorted(x % 7)]
                    except Exception as ex:
                        now = ["raised", type(ex).__name__]
                    if now != before[n]:
                        out.fail("C18.alias", "%s: a BitLengthSet built by %s changed when the caller's set was modified afterwards: %s -> %s" % (k, n, before[n][:3], now[:3]), "alias:bls-operand")
                out.stats["bls_built_from_caller_sets"] += 1
            # (1c) a client computes with the bit length sets of the types (offset + set, set | n, repeat ...): the types are values
            for k, o in [x for x in oa if isinstance(x[1], pydsdl.SerializableType)][:40]:
                try:
                    b0 = o.bit_length_set
                except TypeError:
                    continue
                before = [b0.min, b0.max, sorted(b0 % 64), sorted(b0 % 7), hash(b0), hash(o), str(o)]
                _ = (b0 + 8, b0 + {0, 16}, 24 + b0, b0 | 8, b0.repeat(2), b0.repeat_range(3), b0.pad_to_alignment(16), pydsdl.BitLengthSet.concatenate([b0, b0, 8]), pydsdl.BitLengthSet.unite([b0, 8]))
                c0 = b0 + 16
                _ = c0 + 24
                b1 = o.bit_length_set
                after = [b1.min, b1.max, sorted(b1 % 64), sorted(b1 % 7), hash(b1), hash(o), str(o)]
                out.stats["client_set_arithmetic"] += 1
                if after != before:
                    out.fail("C18.alias", "%s (%s): computing with the type's bit_length_set (+, |, repeat, pad, concatenate, unite) changed the type: min / max / residues %s -> %s" % (k, type(o).__name__, before[:3], after[:3]), "alias:bls-arithmetic")
                twin = db.get(k)
                if twin is not None:
                    # answers that were never asked before (nothing memoised) against the untouched twin from the second read
                    tb = twin.bit_length_set
                    fresh = [sorted(b1 % d0) for d0 in (11, 13, 37)]
                    want = [sorted(tb % d0) for d0 in (11, 13, 37)]
                    if fresh != want:
                        out.fail("C18.alias", "%s (%s): after a client computed with the type's bit_length_set its residues mod 11 / 13 / 37 are %s; the untouched twin built from the same files has %s" % (k, type(o).__name__, fresh, want), "alias:bls-arithmetic")
            # (2) equality / hash contract between independently built objects
            for k, o in oa:
                p = db.get(k)
                if p is None:
                    continue
                try:
                    if not (o == p) or not (p == o):
                        out.fail("C18.eqhash", "%s: objects built independently from the same description are unequal (%s)" % (k, type(o).__name__), "eq:" + type(o).__name__)
                    elif hash(o) != hash(p):
                        out.fail("C18.eqhash", "%s: equal objects with different hashes (%s)" % (k, type(o).__name__), "hash:" + type(o).__name__)
                    if not (o == o):
                        out.fail("C18.eqhash", "%s: not reflexive" % k, "reflexive")
                except Exception as ex:
                    out.fail("C18.eqhash", "%s: ==/hash raised %s: %s" % (k, type(ex).__name__, ex), "eq-raised:" + type(ex).__name__)
                out.stats["eq_pairs"] += 1
            # distinct objects: differing in kind / string / length set => unequal (both directions)
            rng = random.Random(scn["pick_seed"])
            pool = [(k, o) for k, o in oa if isinstance(o, pydsdl.SerializableType)]
            if c is not None:
                pool += [("c:" + k, o) for k, o in harvest(c) if isinstance(o, pydsdl.SerializableType)]
            for _ in range(min(60, len(pool) * 2)):
                (k1, o1), (k2, o2) = rng.choice(pool), rng.choice(pool)
                try:
                    differ = type(o1) is not type(o2) or str(o1) != str(o2) or self._bls_differ(o1, o2)
                    e12, e21 = (o1 == o2), (o2 == o1)
                    if e12 != e21:
                        out.fail("C18.eqhash", "%s vs %s: == is not symmetric" % (k1, k2), "symmetric")
                    if differ and (e12 or e21):
                        out.fail("C18.distinct", "%s (%s) and %s (%s) differ in kind / string / length set but compare equal" % (k1, o1, k2, o2), "distinct:" + type(o1).__name__)
                    if e12 and hash(o1) != hash(o2):
                        out.fail("C18.eqhash", "%s == %s but hashes differ" % (k1, k2), "hash2")
                    out.shapes.append(digest(["pair", type(o1).__name__, type(o2).__name__, differ, e12]))
                except Exception as ex:
                    out.fail("C18.eqhash", "%s vs %s: == raised %s" % (k1, k2, type(ex).__name__), "eq-raised2")
                out.stats["distinct_pairs"] += 1
            # (2b) directed look-alikes: same name, version and bit length set, different KIND (a sealed structure whose lengths
            # happen to be header + {0, 8, .., extent} vs a delimited structure of that extent): must be unequal both ways
            n = 1 + scn["pick_seed"] % 20
            def one(items, seal):
                return {"roots": [{"dir": "w/d0/kt", "name": "kt", "defs": [{"name": "kt.Twin", "ver": [1, 0], "port": None, "ext": "dsdl", "dep": False,
                        "secs": [{"union": False, "hdr": None, "items": items, "seal": seal}]}]}]}
            try:
                ka = Node(one([["f", ["u", 24, "s"], "a"], ["f", ["var", ["u", 8, "s"], n], "b"]], "sealed"))
                nodes.append(ka)
                kb = Node(one([["f", ["arr", ["u", 8, "s"], n], "payload"]], 8 * n))
                nodes.append(kb)
                ta, tb = ka.types["kt.Twin.1.0"], kb.types["kt.Twin.1.0"]
                same_bls = ta.bit_length_set == tb.bit_length_set and set(ta.bit_length_set) == set(tb.bit_length_set)
                out.stats["kind_lookalike_pairs"] += 1
                if same_bls and type(ta) is not type(tb) and ((ta == tb) or (tb == ta)):
                    out.fail("C18.distinct", "a sealed structure and a delimited structure with the same name, version and bit length set %s compare equal (%s vs %s)" % (sorted(ta.bit_length_set)[:4], type(ta).__name__, type(tb).__name__), "distinct:kind-lookalike")
                # same name, version and kind, different bit length sets that share their minimum (one fixed-length, one not) or
                # their minimum and maximum: must be unequal; and whenever two bit length sets compare equal their hashes agree
                w8 = 8 * (1 + n % 4)
                for ia, ib in (([["f", ["u", w8, "s"], "a"]], [["f", ["var", ["u", w8, "s"], 1], "a"]]),
                               ([["f", ["arr", ["u", 8, "s"], 1 + n % 3], "a"]], [["f", ["var", ["u", 8, "s"], n % 3], "a"]] if n % 3 else [["f", ["u", 8, "s"], "a"], ["f", ["var", ["u", 8, "s"], 2], "b"]]),
                               ([["f", ["var", ["u", 8, "s"], 2], "a"]], [["f", ["var", ["u", 16, "s"], 1], "a"]])):
                    na, nb = Node(one(ia, "sealed")), Node(one(ib, "sealed"))
                    nodes += [na, nb]
                    xa, xb = na.types["kt.Twin.1.0"], nb.types["kt.Twin.1.0"]
                    sa, sb = set(xa.bit_length_set), set(xb.bit_length_set)
                    out.stats["bls_lookalike_pairs"] += 1
                    if sa != sb and xa.bit_length_set.min == xb.bit_length_set.min and ((xa == xb) or (xb == xa)) and (xa.bit_length_set.max != xb.bit_length_set.max):
                        out.fail("C18.distinct", "two structures with the same name and version whose bit length sets %s and %s differ compare equal" % (sorted(sa), sorted(sb)), "distinct:bls-lookalike")
                    if (xa.bit_length_set == xb.bit_length_set) and hash(xa.bit_length_set) != hash(xb.bit_length_set):
                        out.fail("C18.bls-eq", "bit length sets %s and %s compare equal but hash differently" % (sorted(sa), sorted(sb)), "bls-eq-hash")
                    if (xa == xb) and hash(xa) != hash(xb):
                        out.fail("C18.eqhash", "types with bit length sets %s and %s compare equal but hash differently" % (sorted(sa), sorted(sb)), "hash:lookalike")
            except NodeError:
                pass
            # (2d) a bit length set against the same numbers held in a plain container (what `bls == {8, 16}` in a client's
            # assertion does), and against a set built from such a container: equal sets are never reported different
            from ..worlds import realcanon
            def plain_forms(vals):
                vs = sorted(vals)
                forms = [("set", set(vs)), ("frozenset", frozenset(vs)), ("list", list(vs)), ("tuple", tuple(reversed(vs)))]
                if len(vs) >= 2 and len({b0 - a0 for a0, b0 in zip(vs, vs[1:])}) == 1:
                    st = vs[1] - vs[0]
                    forms += [("range", range(vs[0], vs[-1] + 1, st)), ("range-exact-stop", range(vs[0], vs[-1] + st, st)), ("range-ragged-stop", range(vs[0], vs[-1] + 1 + (st - 1) // 2, st))]
                return forms
            cands = []
            for k, o in oa:
                if isinstance(o, pydsdl.BitLengthSet):
                    ex = realcanon.safe_expand(o)
                    if ex is not None and 1 <= len(ex) <= 300:
                        cands.append((k, o, ex))
            pk = scn["pick_seed"]
            cands = cands[:12] + [("progression", pydsdl.BitLengthSet({a0 + st * i for i in range(cnt)}), {a0 + st * i for i in range(cnt)})
                                  for a0, st, cnt in ((pk % 9, 2 + pk % 7, 2 + pk % 5), (8 * (pk % 4), 8, 3 + pk % 6), (pk % 3, 3, 2), (0, 1 + pk % 4, 4))]
            for k, b0, ex in cands:
                for fname, form in plain_forms(ex):
                    try:
                        built = pydsdl.BitLengthSet(form)
                        verdicts = [("set == %s" % fname, b0 == form), ("set == BitLengthSet(%s)" % fname, b0 == built), ("BitLengthSet(%s) == set" % fname, built == b0),
                                    ("members of BitLengthSet(%s)" % fname, set(built) == ex), ("hash", hash(built) == hash(b0))]
                    except Exception as ex0:
                        from .base import raised_inside_sut
                        if not raised_inside_sut(ex0):
                            raise
                        out.fail("C18.bls-eq", "%s: comparing / building with a %s of the same numbers raised %s: %s" % (k, fname, type(ex0).__name__, ex0), "bls-plain-raised:" + fname)
                        continue
                    out.stats["bls_vs_plain_container"] += 1
                    for what, okv in verdicts:
                        if not okv:
                            out.fail("C18.bls-eq", "%s: bit length set %s against the same numbers as a %s: '%s' is false" % (k, sorted(ex)[:8], fname, what), "bls-plain:" + fname.split("-")[0])
            # (2c) every pair of primitive / void types that occur anywhere (incl. the implicit length and tag fields): equal iff
            # same class and same string form
            prims = []
            for k, o in oa:
                for x in (o, getattr(o, "element_type", None), getattr(o, "length_field_type", None), getattr(o, "tag_field_type", None), getattr(o, "delimiter_header_type", None)):
                    if isinstance(x, (pydsdl.PrimitiveType, pydsdl.VoidType)) and not any(x is y for y in prims) and len(prims) < 40:
                        prims.append(x)
            for x in prims:
                for y in prims:
                    same = type(x) is type(y) and str(x) == str(y)
                    if (x == y) != same:
                        out.fail("C18.distinct" if not same else "C18.eqhash", "%s %r and %s %r: == says %s" % (type(x).__name__, str(x), type(y).__name__, str(y), x == y), "prim-pair:%s/%s" % (type(x).__name__, type(y).__name__))
                    elif same and hash(x) != hash(y):
                        out.fail("C18.eqhash", "%s %r: equal objects with different hashes" % (type(x).__name__, str(x)), "prim-hash")
            out.stats["primitive_pairs"] += len(prims) ** 2
            # (3) pickle through a second interpreter with another hash seed
            picks = rng.sample(oa, min(len(oa), 14))
            for k, o in picks:
                try:
                    before_full = self._full(o, pydsdl)
                    blob = pickle.dumps(o)
                    if self._full(o, pydsdl) != before_full:
                        out.fail("C18.pickle", "%s (%s): pickling the object changed it: %s -> %s" % (k, type(o).__name__, before_full, self._full(o, pydsdl)), "pickle-mutates:" + type(o).__name__)
                    local = pickle.loads(blob)
                    if self._full(local, pydsdl) != before_full:
                        out.fail("C18.pickle", "%s (%s): the unpickled object differs from the original in its paths / accessor types: %s vs %s" % (k, type(o).__name__, self._full(local, pydsdl), before_full), "pickle-local-full:" + type(o).__name__)
                except Exception as ex:
                    out.fail("C18.pickle", "%s (%s): pickling raised %s: %s" % (k, type(o).__name__, type(ex).__name__, ex), "pickle-raised:" + type(o).__name__)
                    continue
                want = digest(describe(o))
                if digest(describe(local)) != want or str(local) != str(o) or not (local == o) or hash(local) != hash(o):
                    out.fail("C18.pickle", "%s (%s): local pickle round trip changed the object" % (k, type(o).__name__), "pickle-local:" + type(o).__name__)
                dirs = [a.world.abs(r0["dir"]) for r0 in a.uni.roots]
                ans = peer.ask(blob, k, dirs)
                out.stats["cross_interpreter_pickles"] += 1
                out.nontrivial = True
                out.shapes.append(digest(["pickle", type(o).__name__]))
                if not ans.get("ok"):
                    out.fail("C18.pickle", "%s (%s): the peer interpreter could not load it: %s" % (k, type(o).__name__, ans.get("error")), "pickle-peer-load:" + type(o).__name__)
                    continue
                if ans["digest"] != want or ans["str"] != str(o):
                    if isinstance(o, pydsdl.Set) and ans["digest"] == want:
                        out.stats["set_str_order_differs_across_hash_seeds"] += 1
                    else:
                        out.fail("C18.pickle", "%s (%s): description / str differ in the peer interpreter (PYTHONHASHSEED %s): %r vs %r" % (k, type(o).__name__, ans.get("hashseed"), ans["str"][:80], str(o)[:80]),
                                 "pickle-peer-differs:" + type(o).__name__)
                if not ans["eq_self"] or not ans["eq_twin"] or not ans["hash_twin"]:
                    out.fail("C18.pickle", "%s (%s): ==/hash contract broken after unpickling in the peer" % (k, type(o).__name__), "pickle-peer-eq:" + type(o).__name__)
                fr = ans.get("fresh")
                if fr is not None:
                    out.stats["peer_fresh_comparisons"] += 1
                    if not fr["eq"]:
                        out.fail("C18.pickle", "%s (%s): unpickled in the peer (PYTHONHASHSEED %s), the object is unequal to the equal object built there from the same files" % (k, type(o).__name__, ans.get("hashseed")), "pickle-peer-fresh-eq:" + type(o).__name__)
                    elif not fr["hash"] or not fr["lookup"]:
                        out.fail("C18.eqhash", "%s (%s): unpickled in the peer (PYTHONHASHSEED %s), the object equals the object built there from the same files but hashes differently / is not found in a dict keyed by it" % (k, type(o).__name__, ans.get("hashseed")), "pickle-peer-fresh-hash:" + type(o).__name__)
                back = pickle.loads(bytes.fromhex(ans["repickle"]))
                if digest(describe(back)) != want or not (back == o) or hash(back) != hash(o):
                    out.fail("C18.pickle", "%s (%s): object pickled back by the peer differs / unequal / different hash" % (k, type(o).__name__), "pickle-back:" + type(o).__name__)
            # (3b) directed: a structure with many fields built through the public constructors survives pickling (the operator
            # graph behind its bit length set is as deep as the structure is long)
            if scn["pick_seed"] % 8 == 0:
                from pathlib import Path as _P
                nf = [40, 70, 160, 200][scn["pick_seed"] // 8 % 4]
                u3 = pydsdl.UnsignedIntegerType(3, pydsdl.PrimitiveType.CastMode.TRUNCATED)
                big = pydsdl.StructureType(name="deep.Long", version=pydsdl.Version(1, 0), attributes=[pydsdl.Field(u3, "f%d" % i) for i in range(nf)], deprecated=False,
                                           fixed_port_id=None, source_file_path=_P("deep") / "Long.1.0.dsdl", has_parent_service=False)
                out.stats["many_field_structures_pickled"] += 1
                try:
                    back = pickle.loads(pickle.dumps(big))
                    if not (back == big) or hash(back) != hash(big) or str(back) != str(big) or back.bit_length_set.max != big.bit_length_set.max or len(back.fields) != nf:
                        out.fail("C18.pickle", "a structure with %d fields: the pickle round trip changed the object" % nf, "pickle-many-fields-differs")
                except RecursionError:
                    out.fail("C18.pickle", "a structure with %d uint3 fields cannot be pickled: RecursionError" % nf,
                             "pickle-recursion:fields>=150" if nf >= 150 else "pickle-recursion:fields<=70")
            # (4) BitLengthSet: never unequal for extensionally equal sets
            for k, o in oa:
                if isinstance(o, pydsdl.BitLengthSet) and (o.max - o.min) <= 2048:
                    from ..worlds.realcanon import safe_expand
                    try:
                        members = safe_expand(o, 100000)
                        if members is None:
                            continue
                        explicit = pydsdl.BitLengthSet(members)
                    except Exception:
                        continue
                    if not (o == explicit) or not (explicit == o) or hash(o) != hash(explicit) or not (o == members):
                        out.fail("C18.bls-eq", "%s: %s is unequal to the explicit set of its own elements" % (k, o), "bls-eq")
                    out.stats["bls_pairs"] += 1
            # (5) history: the definition files are edited IN PLACE (same paths) and read again in the same process; a model object
            # kept from the earlier read equals the new object of the same file exactly when nothing observable changed
            if c is not None and sorted(c.uni.defs) == sorted(b.uni.defs) and all(c.uni.file_of(k) == b.uni.file_of(k) for k in b.uni.defs):
                for k in c.uni.defs:
                    b.world.write(b.uni.file_of(k), c.world.texts[k])
                fresh: dict = {}
                nroots = len(b.uni.roots)
                ok5 = True
                for ri in range(nroots):
                    res5 = b.world.run_read({"op": "rn", "root": {"p": b.uni.roots[ri]["dir"]},
                                             "lookups": [{"p": b.uni.roots[x]["dir"]} for x in range(nroots) if x != ri], "key": None, "cwd": ""})
                    if not res5["ok"]:
                        ok5 = False
                        break
                    fresh.update({str(t): t for t in res5["direct"]})
                if ok5:
                    olds, news = dict(_harvest(b.types)), dict(_harvest(fresh))
                    for k5, o_old in olds.items():
                        o_new = news.get(k5)
                        if o_new is None or type(o_old) is not type(o_new) or not isinstance(o_old, pydsdl.SerializableType):
                            continue
                        differ = str(o_old) != str(o_new) or self._bls_differ(o_old, o_new)
                        out.stats["kept_vs_reread_after_edit_pairs"] += 1
                        out.stats["kept_vs_reread_after_edit_differing"] += int(differ)
                        e1, e2 = (o_old == o_new), (o_new == o_old)
                        if differ and (e1 or e2):
                            out.fail("C18.distinct", "%s (%s): the object kept from the read before the file was edited in place and the object read afterwards differ in string form / length set (%s) but compare equal" % (
                                k5, type(o_old).__name__, lab), "distinct:kept-vs-reread")
                        elif e1 != e2:
                            out.fail("C18.eqhash", "%s: kept vs re-read: == is not symmetric" % k5, "symmetric")
                        elif e1 and hash(o_old) != hash(o_new):
                            out.fail("C18.eqhash", "%s: kept and re-read objects are equal with different hashes" % k5, "hash:kept-vs-reread")
        finally:
            for n in nodes:
                n.close()
        return out

    def _full(self, o, pydsdl):
        """What describe() leaves out on purpose (absolute paths): value AND type of the path accessors, recursively for nested
        composites - compared only between an object and its own pickled copy."""
        if isinstance(o, pydsdl.CompositeType):
            nested = []
            if not isinstance(o, pydsdl.ServiceType):
                for f in o.fields:
                    t = f.data_type
                    t = t.element_type if isinstance(t, pydsdl.ArrayType) else t
                    if isinstance(t, pydsdl.CompositeType):
                        nested.append([type(t.source_file_path).__name__, str(t.source_file_path)])
            return [type(o.source_file_path).__name__, str(o.source_file_path), type(o.source_file_path_to_root).__name__, str(o.source_file_path_to_root),
                    type(o.version).__name__, list(o.version), type(o.fixed_port_id).__name__, nested]
        return None

    def _bls_differ(self, o1, o2) -> bool:
        try:
            b1, b2 = o1.bit_length_set, o2.bit_length_set
        except TypeError:
            return False
        return b1.min != b2.min or b1.max != b2.max or set(b1 % 32) != set(b2 % 32)


CHECK = C18()
