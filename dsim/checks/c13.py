"""C13 - bad input yields InvalidDefinitionError with a path, never a crash / InternalError (World W; storage corruption)."""
from __future__ import annotations
import copy
import random
import re
from ..core.scenario import digest
from ..model import gen as G
from ..model import types as T
from ..model.namespace import Universe
from ..model.render import render
from .base import Check, Outcome, InvalidScenario
from . import wcommon as W

NOISE = list(" \t#@=[]<>{}().,'\"\\-+*/%|&^!~:;?$`_0123456789azAZ") + ["\x00", "\x01", "\x07", "\x0b", "\x0c", "\x1b", "\x7f", "\x85", "\xa0",
         "é", "ß", "Ω", "ж", "中", "☃", "\u200b", "\u2028", "\ufeff", "\U0001F600", "\r"]
CORNERS = [
    # void (padding) types where only a data type may stand: array element, constant, named field, union context
    "void8[4] pad_array", "void1[<=7] pad_var", "void3[<2] pad_lt", "void8 NAMED_PAD = 0", "void64[1] one_pad", "truncated void8 tp", "saturated void1[2] sp",
    "@print void8", "@print void8[2]", "@assert void3._bit_length_ == {3}", "uint8[<=void8._extent_] via_void",
    "@print (-1) ** 0.5", "@print (-8) ** (1/3)", "@assert 0 ** -1 == 1", "@print 1 % 0", "@print 1 / 0", "@print 2 ** 0.5",
    "@print 10 ** 400.5", "@print 10.0 ** 400", "@print 1e400", "@print 1e-400", "@print '\\U00110000'", "@print '\\UFFFFFFFF'",
    "@print '\\ud800'", "uint8 CH = '\\ud800'", "uint8 CH = '\\u00e9'", "@print 10 ** 5000", "uint8 BIG = 10 ** 5000",
    "uint64 BIG = 10 ** 5000", "float64 BIG = 10 ** 5000", "@assert 10 ** 5000 > 0", "uint8[10 ** 30] huge", "uint8[<=2 ** 64] huge",
    "uint8[<=2 ** 64 - 1] huge", "@extent 10 ** 30", "@extent 8 * 10 ** 30", "@print {1, 2}.min", "@print {1, 'a'}", "@print {}",
    "@print {'a', 'b'}.max", "@print {true}.min", "@print true.min", "@print 'a'.count", "@print 1 .count", "@print 1.0.x",
    "@print ({1, 2} & {3, 4}).min", "@print ({1, 2} & {3, 4}).max", "@print ({1} ^ {1}).count", "@print {1, 2} & {3}", "@print ({1, 2} & {3, 4}) == {1}",
    "@assert (_offset_ & {1}).count == 0", "@print (_offset_ ^ _offset_).max", "@print ({1, 2} & {3}) | {1}", "@print ({'a'} & {'b'}).min", "@print ({1} & {2}) + 1",
    "uint8[({1, 2} & {3}).count + 1] ec", "@print -{1}", "@print !1", "@print !{true}", "@print 1 || 2", "@print 'a' + 1", "@print {1} + {2}", "@print {1} * 'a'",
    "@print 1 < 'a'", "@print {1} < 1", "@print 2 ** {1, 2}", "@print {2} ** 2", "@print {1/2} | {1}", "@print 1.5 | 1", "@print 1 & 0.5",
    "@print ~1", "@print uint8", "@print uint8._bit_length_", "@print uint8[<=3]._bit_length_", "@print uint8._extent_",
    "@print void8._bit_length_", "@print uint8.nope", "@print _offset_.nope", "@print _offset_ + 1", "@print _offset_ ** 2",
    "@print _offset_.min.max", "@assert _offset_ == {0}", "@print uint8 == uint8", "@print uint8 + 1", "@print uint8[2] == uint8[2]",
    "@print 0x", "@print 0b2", "@print 1__0", "@print 1e", "@print .5.", "@print 'unterminated", "@print \"mixed'", "@print '\\q'",
    "@print '\\u12'", "@print '\\", "@print 1 +", "@print (1", "@print 1)", "@print ((((((((((1))))))))))", "@", "@ print 1", "@print1",
    "---- #", "--", "- - -", "uint8", "uint8 ", "uint8 1a", "uint8 a b", "uint8[] a", "uint8[<] a", "uint8[<=] a", "uint8[1][2] a",
    "uint8[1] [2] a", "saturated bool b", "truncated bool b", "saturated saturated uint8 a", "truncated void8", "void8[2]", "void8 = 1",
    "utf8[<=2] s = 'a'", "byte[2] y = 1", "uint8 a = ", "uint8 = 1", "bool B = true || 1", "bool B = !true", "float16 F = 65504.0000001",
    "float16 F = -65504", "float32 F = 3.5e38", "int2 I = -2", "int2 I = -3", "uint1 U = 1", "uint1 U = 2", "uint8 S = 'ab'", "uint8 S = ''",
    "@print " + "1" * 4400, "@print 1." + "1" * 4400, "uint8 LONG = " + "9" * 4400, "uint8[" + "9" * 4400 + "] long_cap", "@print 0x" + "f" * 4400,
    "@print " + "0" * 4400, "@assert " + "7" * 4301 + " > 0", "@extent " + "8" * 4400,
    "uint" + "9" * 4400 + " wide", "int" + "9" * 4400 + " wide", "float" + "9" * 4400 + " wide", "void" + "9" * 4400, "truncated uint" + "9" * 4400 + " w",
    "uint8[<=3] arr_\nuint" + "1" * 4301 + " w2", "@extent 10 ** 5000 + 1", "@extent 10 ** 5000", "@extent 8 * 10 ** 4400", "@extent -(10 ** 5000)", "@extent 10 ** 5000 / 3",
    "@print 1 ** (2 ** 1100)", "@print (-1) ** (10 ** 400)", "@print 0 ** (10 ** 400)", "@print 2 ** (2 ** 1100)", "uint8[<=2 ** (2 ** 1100)] pw", "@print 2 ** 2 ** 2 ** 2",
    "@print {1, 2} ** (2 ** 1100)", "@print 1.5 ** (2 ** 1100)", "@print 2 ** -(2 ** 1100)", "@print 2 ** (2 ** 1100 + 0.5)", "@assert 1 ** (2 ** 1024) == 1", "@print (1/2) ** (2 ** 1030)",
    "@print (2 ** 1100) ** (2 ** 1100)", "@print 3 ** (3 ** 7) ** 2", "@print (10 ** 5000) ** 1000 > 0", "@print 2 ** (2 ** 1023)", "@print (-2) ** (2 ** 1100 + 1)",
    "@print {{1}, {1, 2}}.min", "@print {{1}, {1, 2}}.max", "@assert {{1}, {2}}.count == 2", "@print {{1, 2}, {3}}.min", "@print {{'a'}, {'a', 'b'}}.max", "@print {{true}}.min",
    "@print {{1}, {1, 2}} == {{1, 2}, {1}}", "@print {{1}} | {{2}}", "@print {{1}, 2}", "@print {{}}", "@print {{1}, {1.5}}.max", "@print {uint8, int8}.min", "@print {{1}, {2}} < {{1}, {2}, {3}}",
    "@print uint8[10 ** 5000]", "@print uint8[<=2 ** 63][2]", "@assert uint8[10 ** 5000] == uint8[10 ** 5000]", "uint8[10 ** 5000] vast\nuint8[10 ** 5000] vast", "@print {uint8[10 ** 4400], bool}",
    "uint8 a # \x00 control in a comment", "uint8 é", "uint8 a\x0bb", "\ufeffuint8 a", "uint8 a\x0c", "uint8\u00a0a", "uint8 a\u2028uint8 b",
]
SVC_CORNERS = ["%s svc_field\n@print _offset_", "%s svc_field\n@assert _offset_.count > 0", "uint8 pre_svc\n%s svc_field\nuint8[<=_offset_.max + 1] post_svc", "%s[<=2] svc_var\n@print _offset_",
               "@print %s._extent_", "@print %s._bit_length_", "%s svc_field", "%s[2] svc_arr", "@assert %s.nope == 1", "@print %s == %s"]
STRAY_NAMES = ["Dir.1.0.dsdl/", "Dir.1.0.uavcan/", "7.Dir.1.0.dsdl/", "Dir.1.0.dsdl/Inner.1.0.dsdl", "Msq.1.0.dsdl/", "README.md", "Foo.dsdl", "Foo.1.dsdl", "Foo.1.0.0.0.dsdl", "1.2.Foo.1.0.dsdl", "Foo.x.0.dsdl", "Foo.1.y.dsdl", "abc.Foo.1.0.dsdl",
               ".1.0.dsdl", "Foo..0.dsdl", "Foo.1..dsdl", ".dsdl", "..dsdl", "nodots.uavcan", "x.Foo.1.0.uavcan", "Foo.1.0.uavcan.dsdl",
               "Foo.-1.0.dsdl", "Foo.1.0 .dsdl", " Foo.1.0.dsdl", "Fo o.1.0.dsdl", "Føø.1.0.dsdl", "Foo.١.0.dsdl", "Foo.1.0.DSDL", "1a.1.0.dsdl",
               "a-b.1.0.dsdl", "uint8.1.0.dsdl", "Foo.0.0.dsdl", "Foo.256.0.dsdl", "9999.Foo.1.0.dsdl", "99999999999999999999.Foo.1.0.dsdl",
               "Foo.99999999999999999999999.0.dsdl", "0x10.Foo.1.0.dsdl", "Foo.1.0.dsdl.dsdl", "Twin.1.0.dsdl|Twin.1.0.uavcan",
               "Twin.1.0.dsdl|7.Twin.1.0.dsdl", "Twin.1.0.dsdl|twin.1.0.dsdl", "sub.dir/Foo.1.0.dsdl", "bad-dir/Foo.1.0.dsdl", "uint8/Foo.1.0.dsdl",
               "\u00b2.Foo.1.0.dsdl", "Foo.1.\u2460.dsdl", "Foo.1\u00b3.0.dsdl", "Foo.\u2081.0.dsdl", "\u00bd.Foo.1.0.dsdl", "\u2167.Foo.1.0.dsdl", "Foo.\uff11.0.dsdl",
               "\u0663.Foo.1.0.dsdl", "Foo.1.0\u00b2.dsdl", "Foo.+1.0.dsdl", "Foo.1_0.0.dsdl", "Foo. 1.0.dsdl", "1e2.Foo.1.0.dsdl", "Foo.1.0x1.dsdl", "Foo.1.-0.dsdl"]

_TOKEN = re.compile(r"\s+|[A-Za-z_][A-Za-z0-9_]*|\d+|.", re.S)


ATOMS = ["{{1}, {1, 2}}", "{{1}}", "0", "1", "2", "-1", "7", "8", "64", "0.5", "1/3", "2.5e1", "0x10", "0b101", "true", "false", "'a'", "'ab'", "''", "{1}", "{1, 2}", "{3, 4}", "{1, 2, 3}",
         "{true}", "{'a', 'b'}", "{1/2}", "_offset_", "uint8", "bool", "float16", "uint8[<=2]", "{0}", "{8, 16}"]
BINOPS = ["+", "-", "*", "/", "%", "**", "|", "&", "^", "==", "!=", "<", "<=", ">", ">=", "||", "&&"]
ATTRS = ["min", "max", "count", "_bit_length_", "_extent_", "nope", "x"]


def rand_expr(rng: random.Random, depth: int) -> str:
    """A small random constant expression (bounded nesting and magnitude); most are invalid - that is the point."""
    if depth <= 0 or rng.random() < 0.25:
        return rng.choice(ATOMS)
    r = rng.random()
    if r < 0.55:
        op = rng.choice(BINOPS)
        a = rand_expr(rng, depth - 1)
        if op in "|&^" and rng.random() < 0.6:
            return "(%s %s %s)" % (rng.choice(["{1}", "{1, 2}", "{3, 4}", "{1, 2, 3}", "_offset_", "{'a'}"]), op, rng.choice(["{1}", "{1, 2}", "{3, 4}", "{2, 3}", "{'b'}", "_offset_"]))
        b = rng.choice(["0", "1", "2", "3", "-1", "0.5", "{1}"]) if op == "**" else rand_expr(rng, depth - 1)
        if op == "**" and "**" in a:
            op = "*"
        return "(%s %s %s)" % (a, op, b)
    if r < 0.7:
        return "%s(%s)" % (rng.choice(["-", "+", "!"]), rand_expr(rng, depth - 1))
    if r < 0.95:
        return "(%s).%s" % (rand_expr(rng, depth - 1), rng.choice(ATTRS))
    return "{%s, %s}" % (rand_expr(rng, depth - 1), rand_expr(rng, depth - 1))


def rand_expr_line(rng: random.Random) -> str:
    e = rand_expr(rng, rng.randint(1, 3))
    k = rng.random()
    if k < 0.4:
        return "@print " + e
    if k < 0.6:
        return "@assert " + e
    if k < 0.75:
        return "uint8 EX_K = " + e
    if k < 0.85:
        return "uint8[%s] ex_arr" % e
    if k < 0.93:
        return "float32 EX_F = " + e
    return "@extent " + e


def bounded(text: str) -> bool:
    """Magnitude / nesting pre-filter (the property quantifies over bounded length and nesting)."""
    if len(text) > 12000:
        return False
    for ln in text.split("\n"):
        if ln.count("**") > 3:
            return False
        for m in re.finditer(r"\*\*\s*\(?\s*-?\s*\(?\s*(\d[\d_]*)", ln):
            if len(m.group(1).replace("_", "")) > 4:  # literal exponents of at most 4 digits
                return False
        if re.search(r"\d{4500,}", ln):
            return False
        depth = mx = 0
        for ch in ln:
            if ch in "([{":
                depth += 1
                mx = max(mx, depth)
            elif ch in ")]}":
                depth -= 1
        if mx > 12:
            return False
        if ln.count("!") > 12 or ln.count("-") > 40 or ln.count("+") > 40:
            return False
    return True


ATTR_CORNERS = ["@print {T}.{a}", "uint8 AX_K = {T}.{a}", "uint8[<={T}.{a}] ax_arr", "@assert {T}.{a} == 64", "@print {T}.{a}.min", "@print {T}.{a}._bit_length_",
                "@print {T}.{a} + 1", "@extent {T}.{a}", "float32 AX_F = {T}.{a}", "@print {{{T}.{a}}}", "@print {T}._bit_length_.{a}"]


def corrupt(rng: random.Random, text: str, others: list[str], svc_names: list[str], type_attrs: list | None = None, own: str | None = None) -> tuple[str, str]:
    if rng.random() < 0.04:
        # a versioned reference of the text re-spelled in another letter case (root, namespace or short name): the file that
        # contains it is the offending one
        import re as _re
        refs = list(_re.finditer(r"(?<![A-Za-z0-9_.])([A-Za-z_][A-Za-z0-9_]*(?:\.[A-Za-z_][A-Za-z0-9_]*)+)\.(\d+)\.(\d+)", text))
        if refs:
            m = rng.choice(refs)
            comps = m.group(1).split(".")
            i = rng.randrange(len(comps))
            alt = comps[i].swapcase() if rng.random() < 0.5 else (comps[i][:-1] + comps[i][-1].swapcase())
            if alt != comps[i]:
                comps[i] = alt
                return "case_ref", text[:m.start(1)] + ".".join(comps) + text[m.end(1):]
    if rng.random() < 0.04:
        # bytes that are not valid UTF-8 (Latin-1 text pasted into a comment, a literal, an identifier): lone surrogates in the text
        # are written as the raw bytes 0x80..0xFF
        b0 = chr(0xDC00 + rng.choice([0x80, 0xa0, 0xb5, 0xe9, 0xff, 0xc3, 0xfe]))
        frag = rng.choice(["# caf%s" % b0, "uint8 NON_UTF8 = '%s'" % b0, "uint8 na%sve" % b0, "@print '%s%s'" % (b0, b0), b0, "uint8 ok_field  # %s" % b0])
        lines = text.split("\n")
        i = rng.randint(0, len(lines))
        return "non_utf8", "\n".join(lines[:i] + [frag] + lines[i:])
    if own and rng.random() < 0.05:
        # an undefined reference whose leading components repeat names of the referring definition itself
        comps = own.split(".")[:-2]
        frag = rng.choice(["%s.Covariance.1.0 own_ref" % comps[-1], "%s.%s.1.0 own_ref2" % (comps[-1], comps[-1]), "%s.%s.Nope.1.0 own_ref3" % (comps[0], comps[-1]),
                           "%s.Nope.1.0 own_ref4" % ".".join(comps[1:]) if len(comps) > 1 else "%s.Nope.2.0 own_ref4" % comps[0], "@print %s.Part.1.0.X" % comps[-1]])
        lines = text.split("\n")
        i = rng.randint(0, len(lines))
        return "own_name_ref", "\n".join(lines[:i] + [frag] + lines[i:])
    if type_attrs and rng.random() < 0.08:
        # an attribute-reference expression that names a field / union variant / constant / pseudo-member of a composite type
        tname, attrs = rng.choice(type_attrs)
        frag = rng.choice(ATTR_CORNERS).replace("{T}", tname).replace("{a}", rng.choice(attrs)).replace("{{", "{").replace("}}", "}")
        lines = text.split("\n")
        i = rng.randint(0, len(lines))
        return "attr_corner", "\n".join(lines[:i] + [frag] + lines[i:])
    kind = rng.choice(["torn_line", "torn_token", "torn_char", "lost_block", "dup_block", "splice", "tok_delete", "tok_dup", "tok_swap",
                       "tok_replace", "noise", "noise", "corner", "corner", "corner", "corner", "corner", "corner", "svc_corner"])
    lines = text.split("\n")
    toks = _TOKEN.findall(text)
    if kind == "torn_line":
        return kind, "\n".join(lines[: rng.randint(0, len(lines))])
    if kind == "torn_token":
        return kind, "".join(toks[: rng.randint(0, len(toks))])
    if kind == "torn_char":
        return kind, text[: rng.randint(0, len(text))]
    if kind == "lost_block":
        i = rng.randint(0, len(lines))
        j = rng.randint(i, min(len(lines), i + 3))
        return kind, "\n".join(lines[:i] + lines[j:])
    if kind == "dup_block":
        i = rng.randint(0, len(lines))
        j = rng.randint(i, min(len(lines), i + 3))
        return kind, "\n".join(lines[:j] + lines[i:j] + lines[j:])
    if kind == "splice" and others:
        o = rng.choice(others).split("\n")
        i = rng.randint(0, len(o))
        j = rng.randint(i, min(len(o), i + 3))
        k = rng.randint(0, len(lines))
        return kind, "\n".join(lines[:k] + o[i:j] + lines[k:])
    if kind.startswith("tok_") and toks:
        i = rng.randrange(len(toks))
        if kind == "tok_delete":
            del toks[i]
        elif kind == "tok_dup":
            toks.insert(i, toks[i])
        elif kind == "tok_swap":
            j = rng.randrange(len(toks))
            toks[i], toks[j] = toks[j], toks[i]
        else:
            toks[i] = rng.choice(["uint8", "@", "=", "[", "]", "<=", "<", "---", "true", "0", "1.5", "'x'", "{", "}", "(", ")", "**", "/", "%", ".",
                                  "void8", "utf8", "byte", "truncated", "saturated", "_offset_", "@union", "@extent", "@sealed", "#", "\n"])
        return kind, "".join(toks)
    if kind == "noise":
        t = list(text)
        for _ in range(rng.randint(1, 4)):
            i = rng.randint(0, len(t))
            if t and rng.random() < 0.3:
                t[min(i, len(t) - 1)] = rng.choice(NOISE)
            else:
                t.insert(i, rng.choice(NOISE))
        return kind, "".join(t)
    if kind == "svc_corner" and svc_names:
        frag = rng.choice(SVC_CORNERS).replace("%s", rng.choice(svc_names))
        i = rng.randint(0, len(lines))
        return "svc_corner", "\n".join(lines[:i] + [frag] + lines[i:])
    if rng.random() < 0.5:
        frag = rand_expr_line(rng)
        i = rng.randint(0, len(lines))
        return "expr", "\n".join(lines[:i] + [frag] + lines[i:])
    frag = rng.choice(CORNERS)
    i = rng.randint(0, len(lines))
    return "corner", "\n".join(lines[:i] + [frag] + lines[i:])


class C13(Check):
    PROP = "C13"
    HANG_ORACLE = "C13.terminates"
    RULE = ("each run = one valid workspace with dependencies in which the text of ONE definition inside the closure is corrupted "
            "as a storage fault: torn write (prefix at line / token / character boundaries), lost block, duplicated block, block "
            "spliced from another definition, token delete / duplicate / swap / replace, character noise incl. control and "
            "non-ASCII characters, one of ~160 arithmetic / lexical corner fragments or a random constant expression of depth <= 3 over 31 atoms, 17 binary "
            "and 3 unary operators and 7 attributes (bounded magnitude and nesting), service "
            "types used as values; or one stray directory entry (59 odd file / directory names, incl. directories named like definition files, incl. twins encoding the same "
            "name and version). Oracle: the call returns or raises an InvalidDefinitionError whose path names a file of the "
            "workspace; InternalError, any non-pydsdl exception or no progress within the watchdog limit is a violation. "
            "distinct = hash of (fault kind, resulting exception class, target or dependency); non-trivial = the corrupted text "
            "differs from the original and the file was opened by the reader (probe)")
    RULE = RULE + "; " + "round 7: undefined references that repeat the referrer's own name components"
    TIERS = {"quick": {"runs": 3200, "budget_s": 50}, "thorough": {"runs": 200000, "budget_s": 1200}}
    ASSUMPTIONS = ["bounded magnitude and nesting (pre-filter 'bounded()' in dsim/checks/c13.py): at most three ** per line with literal exponents of "
                   "at most 4 digits, bracket depth <= 12, text <= 12000 characters, numeric literals <= 4500 digits",
                   "not injected: dangling symlinks and symlinks to files outside the root directory, unreadable files"]

    def generate(self, rng: random.Random, r: int, tier: str) -> dict:
        ws = G.gen_workspace(rng, roots=(1, 2), defs=(2, 6), p_ref=0.6, p_service=0.25, p_const=0.4, p_doc=0.3)
        uni = Universe(ws)
        keys = list(uni.defs)
        scn: dict = {"ws": ws, "read_seed": rng.randrange(1 << 30), "fault": None}
        texts = {k: render(d, None)[0] for k, d in uni.defs.items()}
        svc = [k for k in keys if T.is_service(uni.defs[k])]
        type_attrs = []
        for k0 in keys:
            d0 = uni.defs[k0]
            names = [it[2] for s0 in d0["secs"] for it in s0["items"] if it[0] in ("f", "c")] + (["request", "response", "Request", "Response"] if T.is_service(d0) else ["value", "request"])
            type_attrs.append((k0, names))
        if rng.random() < 0.8:
            for _ in range(20):
                k = rng.choice(keys)
                kind, text = corrupt(rng, texts[k], [texts[x] for x in keys if x != k], svc, type_attrs, own=k)
                if text != texts[k] and bounded(text):
                    scn["fault"] = {"k": "text", "def": k, "kind": kind, "text": text}
                    break
        if scn["fault"] is None:
            ri = rng.randrange(len(ws["roots"]))
            dirs = sorted({uni.file_of(k).rsplit("/", 1)[0] for k in uni.keys_of_root(ri)} | {ws["roots"][ri]["dir"]})
            scn["fault"] = {"k": "stray", "root": ri, "dir": rng.choice(dirs), "name": rng.choice(STRAY_NAMES),
                            "text": rng.choice(["@sealed\n", "uint8 a\n@sealed\n", "", "garbage \x00"]), "twin_equal": rng.random() < 0.4}
        return scn

    def execute(self, scn: dict) -> Outcome:
        from ..worlds.workspace import World, classify_exc, exc_info
        import os
        out = Outcome()
        W.validate_ws(scn["ws"])
        ws = scn["ws"]
        uni = Universe(ws)
        f = scn["fault"]
        rng = random.Random(scn["read_seed"])
        nroots = len(ws["roots"])
        w = World({"ws": ws, "symlinks": W.symlinks_for(ws)})
        try:
            stray_paths: list[str] = []
            if f["k"] == "text":
                if f["def"] not in uni.defs:
                    raise InvalidScenario("unknown definition")
                if not bounded(f["text"]):
                    raise InvalidScenario("unbounded text")
                w.write(uni.file_of(f["def"]), f["text"])
                changed = f["text"] != w.texts[f["def"]]
                hot_root = uni.root_of[f["def"]]
            else:
                for n, nm in enumerate(f["name"].split("|")):
                    p = f["dir"] + "/" + nm
                    if not any(p.startswith(r0["dir"] + "/") for r0 in ws["roots"]):
                        raise InvalidScenario("stray entry outside the roots")
                    if nm.endswith("/"):
                        if os.path.isfile(w.abs(p.rstrip("/"))):
                            raise InvalidScenario("a definition file of that name exists")
                        os.makedirs(w.abs(p), exist_ok=True)  # a directory whose name looks like a definition file
                    else:
                        w.write(p, f["text"] if n == 0 or f.get("twin_equal") else "uint16 other_body\n@sealed\n")
                    stray_paths.append(p)
                changed = True
                hot_root = f["root"]
            reads = [W.rn_op(rng, uni, hot_root, [x for x in range(nroots) if x != hot_root], allow_unreg=rng.random() < 0.5)]
            if f["k"] == "text":
                keys = list(uni.defs)
                referrers = [k for k in keys if f["def"] in uni.closure([k])]
                targets = rng.sample(referrers, min(len(referrers), rng.randint(1, 2)))
                troots = {uni.root_of[k] for k in targets}
                op = W.rf_op(rng, uni, targets, [x for x in range(nroots) if x not in troots])
                for a in op["roots"]:
                    a["st"] = "abs" if a["st"] == "name" else a["st"]
                reads.append(op)
            if f["k"] == "stray" and len(stray_paths) == 1 and not stray_paths[0].endswith("/") and (stray_paths[0].endswith(".dsdl") or stray_paths[0].endswith(".uavcan")):
                # the odd entry handed to read_files() as a TARGET (another entry point, same contract)
                sp = stray_paths[0]
                reads.append({"op": "rf", "files": [{"p": sp, "st": rng.choice(["abs", "dd"]), "ty": rng.choice("sp")}],
                              "roots": [{"p": ws["roots"][hot_root]["dir"], "st": rng.choice(["abs", "name"]), "ty": rng.choice("sp")}],
                              "lookups": [{"p": r0["dir"]} for i0, r0 in enumerate(ws["roots"]) if i0 != hot_root], "key": None, "cwd": "", "allow_unreg": True})
            all_files = {uni.file_of(k) for k in uni.defs} | set(stray_paths)
            recovery = dict(reads[0])
            offending = None
            if f["k"] == "text":
                # the corrupted file read on its own: if that alone is rejected, the file is offending by itself, and - every
                # other file being valid and unchanged - each read that reaches it must name *it*, not the file that refers to it
                ri0 = uni.root_of[f["def"]]
                sres = w.run_read({"op": "rf", "files": [{"p": uni.file_of(f["def"])}], "roots": [{"p": uni.roots[ri0]["dir"]}],
                                   "lookups": [{"p": r0["dir"]} for i0, r0 in enumerate(uni.roots) if i0 != ri0], "key": None, "cwd": "", "allow_unreg": True})
                out.stats["standalone_reads"] += 1
                # not if the corruption introduced a reference to another definition: a new edge can close a cycle, which is
                # legitimately reported where the cycle closes (in the other file)
                shorts = {k0.split(".")[-3].lower() for k0 in uni.defs}
                def mentions(t: str) -> set:
                    return {(re.sub(r"\s+", "", a).lower(), b, c) for a, b, c in re.findall(r"([A-Za-z_][A-Za-z0-9_.]*?)\s*\.\s*(\d+)\s*\.\s*(\d+)", t)}
                new_refs = mentions(f["text"]) - mentions(w.texts[f["def"]])
                if not sres["ok"] and classify_exc(sres["exc"]) == "IDE" and not new_refs:
                    offending = uni.file_of(f["def"])
            for i, op in enumerate(reads):
                res = w.run_read(op)
                out.stats["reads"] += 1
                status = "ok" if res["ok"] else classify_exc(res["exc"])
                out.obs.append([i, status, type(res["exc"]).__name__ if res["exc"] else None])
                kind = f.get("kind") or ("stray:" + f["name"])
                how = "n/a"
                if f["k"] == "text":
                    targets, _v = W.op_targets(uni, op)
                    how = "target" if f["def"] in targets else "dependency"
                    opened = uni.file_of(f["def"]) in w.open_logs[-1]
                    if opened and changed:
                        out.nontrivial = True
                        out.stats["fault_reached(file opened)"] += 1
                else:
                    out.nontrivial = True
                out.shapes.append(digest([kind if f["k"] == "text" else "stray", type(res["exc"]).__name__ if res["exc"] else "ok", how]))
                out.stats["result:" + status.split(":")[0]] += 1
                out.stats["fault:" + (f.get("kind") or "stray")] += 1
                if res["ok"]:
                    continue
                ex = res["exc"]
                if status != "IDE":
                    txt = str(ex)
                    tail = txt.split(".dsdl", 1)[-1] if ".dsdl" in txt else txt.split(".uavcan", 1)[-1]
                    m = re.search(r"title=([A-Za-z]+)(?:%28%27|%28%22)?([A-Za-z%0-9]{0,40})", tail) or re.search(r"([A-Z][A-Za-z]*(?:Error|Exception)): ([^\n]{0,40})", tail)
                    culprit = (m.group(1) + ":" + re.sub(r"%[0-9A-F]{2}|[^A-Za-z]+", "_", m.group(2))[:30]) if m else ""
                    out.fail("C13.class", "read %d: %s (%s) escaped as %s%s: %s" % (i, kind, how, type(ex).__name__, (" <- " + culprit) if culprit else "", txt[:300]),
                             "class:%s:%s" % (type(ex).__name__, culprit or "-"))
                    continue
                ei = exc_info(ex)
                if not ei.get("path"):
                    out.fail("C13.path", "read %d: %s raised %s without a path" % (i, kind, ei["cls"]), "nopath:" + ei["cls"])
                    continue
                rel = w.rel(ei["path"])
                if rel not in all_files and not any(rel == r0["dir"] or rel.startswith(r0["dir"] + "/") for r0 in ws["roots"]):
                    out.fail("C13.path", "read %d: %s raised %s with path %s, which is not a file of the workspace" % (i, kind, ei["cls"], rel), "foreignpath:" + ei["cls"])
                elif offending is not None and rel != offending and rel in all_files:
                    out.stats["path_attribution_checked"] += 1
                    out.fail("C13.path", "read %d: %s in %s (rejected when read on its own; every other file is valid) is reported as %s with path %s (%s)" % (
                        i, kind, offending, ei["cls"], rel, how), "wrongfile:" + how)
                elif offending is not None:
                    out.stats["path_attribution_checked"] += 1
            # history: the storage fault is repaired (original text restored, stray entry removed) and the same process reads
            # the same directory again: nothing of the failed attempt may be remembered
            if f["k"] == "text":
                w.write(uni.file_of(f["def"]), w.texts[f["def"]])
            else:
                import shutil
                for sp in stray_paths:
                    try:
                        os.remove(w.abs(sp))
                    except OSError:
                        pass
                    top = sp[len(f["dir"]) + 1:].split("/")[0]
                    if "/" in sp[len(f["dir"]) + 1:]:
                        shutil.rmtree(w.abs(f["dir"] + "/" + top), ignore_errors=True)
            res = w.run_read(recovery)
            out.stats["recovery_reads"] += 1
            if not res["ok"]:
                out.fail("C13.class", "after the fault was repaired the same process still fails to read the (valid) namespace: %s: %s" % (type(res["exc"]).__name__, str(res["exc"])[:300]),
                         "recovery:" + type(res["exc"]).__name__)
            elif sorted(str(t) for t in res["direct"]) != sorted(uni.keys_of_root(hot_root)):
                out.fail("C13.class", "after the fault was repaired the same process returns %s, the directory holds %s" % (sorted(str(t) for t in res["direct"]), sorted(uni.keys_of_root(hot_root))), "recovery-differs")
        finally:
            w.close()
        return out

    def simplify(self, scn: dict):
        f = scn.get("fault") or {}
        if f.get("k") == "text":
            lines = f["text"].split("\n")
            n = len(lines)
            chunk = max(1, n // 2)
            while chunk >= 1:
                for i in range(0, n, chunk):
                    c = copy.deepcopy(scn)
                    c["fault"]["text"] = "\n".join(lines[:i] + lines[i + chunk:])
                    yield c
                chunk //= 2


CHECK = C13()
