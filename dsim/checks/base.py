"""Interface every per-property check implements."""
from __future__ import annotations
import importlib
import random
from collections import Counter


class InvalidScenario(Exception):
    """The scenario is outside the domain of the reference model (generator or shrinker produced something the model
    itself calls invalid). Never a violation, never a success: batch = harness error, shrink = candidate rejected."""


def raised_inside_sut(ex: BaseException) -> bool:
    """True if the innermost frame of the exception's traceback is code of the system under test (pydsdl itself): the
    exception then is behaviour of the code under test during a query the property speaks about, not a harness failure."""
    import os
    repo = os.path.realpath(os.environ.get("DSIM_REPO", "/repo")) + os.sep
    tb = ex.__traceback__
    last = None
    while tb is not None:
        last = tb
        tb = tb.tb_next
    return last is not None and os.path.realpath(last.tb_frame.f_code.co_filename).startswith(repo)


class Outcome:
    """Result of executing one scenario."""

    def __init__(self) -> None:
        self.viol: list[dict] = []  # {"oracle": "C10.order", "detail": str, "sig": str}
        self.obs: list = []  # canonical event log of the run (hashed into the digest)
        self.xobs: object = None  # the part that must be identical under another PYTHONHASHSEED (None = not compared)
        self.stats: Counter = Counter()
        self.shape: str = ""
        self.shapes: list[str] = []  # optional: a run that evaluates several independent cases lists each case's shape
        self.nontrivial: bool = False

    def fail(self, oracle: str, detail: str, sig: str | None = None) -> None:
        if len(self.viol) < 10:
            self.viol.append({"oracle": oracle, "detail": detail[:2000], "sig": sig if sig is not None else oracle})


class Check:
    PROP = "C00"
    WORLD = "W"
    CROSS_SEED = False
    LEVEL = "exploration"
    RULE = ""
    TIERS = {"quick": {"runs": 200, "budget_s": 45}, "thorough": {"runs": 5000, "budget_s": 900}}
    ASSUMPTIONS: list[str] = []
    REAL_VS_STUB = ("real: all of pydsdl incl. vendored parsimonious, CPython pathlib/os, the kernel's tmpfs; simulated: "
                    "directory enumeration order, hash seed, cwd, argument spelling, symlink aliases, file mutation "
                    "schedule, print handler, byte channel, clock; stubbed: nothing of pydsdl; the reference models are "
                    "oracles, not stand-ins")
    FAULTS_NOT_INJECTED = ["I/O errors (EIO/EACCES/ENOENT races)", "non-UTF-8 bytes in definition files", "threads"]

    def generate(self, rng: random.Random, r: int, tier: str) -> dict:
        raise NotImplementedError

    def execute(self, scn: dict) -> Outcome:
        raise NotImplementedError

    def simplify(self, scn: dict):
        """Optional check-specific shrink candidates (generic structural deletion is always tried)."""
        return iter(())

    def warmup(self) -> None:
        pass

    def heartbeat(self) -> None:
        """Set by the worker: tells the parent's watchdog that a long run is still making progress."""


def load(prop: str) -> Check:
    mod = importlib.import_module("dsim.checks.%s" % prop.lower())
    return mod.CHECK
