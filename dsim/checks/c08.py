"""C08 - field offsets and in-language layout intrinsics equal the real bit positions (World X monitor + W)."""
from __future__ import annotations
import copy
import random
import re
from ..core.scenario import digest
from ..model import types as T
from ..model import blsref as B
from ..model import refcodec as R
from ..model import valgen as V
from .base import Check, Outcome, InvalidScenario
from . import wcommon as W
from .c06 import gen_wire_ws, type_features

EXPLICIT = 3000


def expandable(node: B.Node) -> bool:
    """May the *implementation under test* be asked to enumerate this set? Its expand() also runs its own numerical
    self-check (residues for every divisor 1..64), which is combinatorial for sub-byte repetitions; estimated, never an oracle."""
    from .c01 import est_cost
    if node.work() > EXPLICIT:
        return False
    return max(est_cost(node, d) for d in (64, 63, 60, 56, 48, 32, 7)) <= 100000


def same_set(real, node: B.Node) -> str | None:
    if real.min != node.lo or real.max != node.hi:
        return "min/max %d/%d vs model %d/%d" % (real.min, real.max, node.lo, node.hi)
    for m in (8, 16, 64):
        if set(real % m) != node.mod(m):
            return "residues mod %d %s vs model %s" % (m, sorted(set(real % m)), sorted(node.mod(m)))
    if expandable(node):
        from ..worlds.realcanon import safe_expand
        got = safe_expand(real)
        if got is not None and got != set(node.expand()):
            return "explicit set %s vs model %s" % (sorted(got)[:12], sorted(node.expand())[:12])
    return None


def offset_at(res: T.Resolver, d: dict, si: int, upto: int) -> B.Node:
    """Model of `_offset_` evaluated just before item index `upto` of section si: aggregate of the fields so far,
    without any padding for the next field (for a union: tag + union of the variants so far)."""
    s = d["secs"][si]
    ftypes = []
    for it in s["items"][:upto]:
        if it[0] == "f":
            ftypes.append(it[1])
        elif it[0] == "p":
            ftypes.append(["void", it[1]])
    if s.get("union"):
        if len(ftypes) == 0:
            return B.Leaf({0})
        if len(ftypes) == 1:
            return T.bls(res, ftypes[0])
        return B.Cat(B.Leaf({T.tag_width(len(ftypes))}), B.Uni(*[T.bls(res, t) for t in ftypes]))
    acc: B.Node = B.Leaf({0})
    first = True
    for t in ftypes:
        if first:
            acc = T.bls(res, t)
            first = False
        else:
            acc = B.Cat(B.Pad(acc, T.align(res, t)), T.bls(res, t))
    return acc


def parse_set(text: str) -> set[int] | None:
    m = re.fullmatch(r"\{(.*)\}", text.strip())
    if not m:
        return None
    try:
        return {int(x) for x in m.group(1).split(",") if x.strip()}
    except ValueError:
        return None


class C08(Check):
    PROP = "C08"
    CRASH_ORACLE = "C08.sound"
    WORLD = "X"
    RULE = ("each run = one generated namespace read by the real front end. For every message / request / response type: (O1) the "
            "offset set of every field (recursively through nested composites and fixed arrays, composing base offsets the way a "
            "code generator does) and of every fixed-array element must equal the reference layout's set, contain the start bit "
            "at which the reference peer actually wrote that field in 12 seeded messages, and - for types with <= 400 shapes and no delimited member (whose sets "
            "deliberately cover future revisions) - equal the union of start bits over ALL combinations of array lengths and union variants; fields yielded once, in "
            "order. (O2) the same for 3 seeded base offset sets (single / multi-valued, aligned or not). (O3) @print _offset_ "
            "inserted at seeded statement positions, @print T._bit_length_ and T._extent_ of seeded types: printed values equal "
            "the API's. distinct = hash of (type features, base kind, exhaustive or sampled); non-trivial = a variable-length or "
            "sub-byte item precedes a checked field")
    TIERS = {"quick": {"runs": 480, "budget_s": 50}, "thorough": {"runs": 30000, "budget_s": 900}}

    def generate(self, rng: random.Random, r: int, tier: str) -> dict:
        ws = gen_wire_ws(rng, defs=(2, 5), max_cap=rng.choice([3, 3, 4, 8]))
        prints = []
        keys = [(ri, di) for ri, r0 in enumerate(ws["roots"]) for di, _d in enumerate(r0["defs"])]
        for _ in range(rng.randint(2, 6)):
            ri, di = rng.choice(keys)
            d = ws["roots"][ri]["defs"][di]
            si = rng.randrange(len(d["secs"]))
            items = d["secs"][si]["items"]
            n = len(items)
            pos = n if d["secs"][si].get("union") else rng.randint(0, n)
            if not d["secs"][si].get("union") and rng.random() < 0.5:
                # prefer the point right after a nested composite / array field (where inter-field padding was applied)
                after = [i + 1 for i, it in enumerate(items) if it[0] == "f" and it[1][0] in ("ref", "arr", "var")]
                if after:
                    pos = rng.choice(after)
            prints.append([ri, di, si, pos, rng.choice(["offset", "offset", "offset", "bl", "extent"]), rng.randrange(1 << 20)])
        from .c06 import add_directed_offset_def
        root = ws["roots"][0]
        off_idx = [i for i, d in enumerate(root["defs"]) if d["name"].endswith(".Off")]
        loc = (0, off_idx[0]) if off_idx else (add_directed_offset_def(rng, ws) if rng.random() < 0.4 else None)
        if loc is not None:
            ri, di = loc
            for pos in range(1, len(ws["roots"][ri]["defs"][di]["secs"][0]["items"]) + 1):
                prints.append([ri, di, 0, pos, "offset", rng.randrange(1 << 20)])
        if rng.random() < 0.15 and (ws["roots"][0]["name"] + ".TagK").lower() not in {d["name"].lower() for d in ws["roots"][0]["defs"]}:
            # a union with few variants and so many constants that variants + constants crosses a tag-width boundary, nested in a
            # structure (all variants share base + tag width; the field after it follows the union's own length set)
            rn0 = ws["roots"][0]["name"]
            nv2 = rng.choice([2, 3])
            nconst = rng.choice([253, 254, 255, 256]) - nv2 + rng.choice([0, 1, 2])
            vit = [["f", rng.choice([["u", 8, "s"], ["u", 13, "t"], ["var", ["u", 8, "s"], 2]]), "v%d" % i] for i in range(nv2)]
            cit = [["c", ["u", 16, "s"], "K%d" % i, str(i), [i, 1]] for i in range(nconst)]
            ws["roots"][0]["defs"].append({"name": rn0 + ".TagK", "ver": [1, 0], "port": None, "ext": "dsdl", "dep": False,
                                           "secs": [{"union": True, "hdr": None, "items": vit + cit, "seal": rng.choice(["sealed", 64])}]})
            ws["roots"][0]["defs"].append({"name": rn0 + ".TagKHost", "ver": [1, 0], "port": None, "ext": "dsdl", "dep": False,
                                           "secs": [{"union": False, "hdr": None, "items": [["f", ["u", 5, "s"], "pre"], ["f", ["ref", rn0 + ".TagK", 1, 0], "u"], ["f", ["u", 8, "s"], "post"]], "seal": "sealed"}]})
        if rng.random() < 0.2 and (ws["roots"][0]["name"] + ".ApxU").lower() not in {d["name"].lower() for d in ws["roots"][0]["defs"]}:
            # a union whose variants have different but approximately equal length sets (same min, max and residues mod 32), the
            # sparser one first, followed by another field in a host structure
            a1, a2 = rng.choice([(["var", ["f", 64, "s"], 1], ["var", ["f", 32, "s"], 2]), (["var", ["u", 64, "s"], 1], ["var", ["u", 32, "s"], 2]), (["var", ["u", 64, "t"], 2], ["var", ["u", 32, "t"], 4])])
            vs = [["f", a1, "wide"], ["f", a2, "narrow"]] + ([["f", ["u", 8, "s"], "tiny"]] if rng.random() < 0.4 else [])
            ws["roots"][0]["defs"].append({"name": ws["roots"][0]["name"] + ".ApxU", "ver": [1, 0], "port": None, "ext": "dsdl", "dep": False,
                                 "secs": [{"union": True, "hdr": None, "items": vs, "seal": "sealed"}]})
            ws["roots"][0]["defs"].append({"name": ws["roots"][0]["name"] + ".ApxUHost", "ver": [1, 0], "port": None, "ext": "dsdl", "dep": False,
                                 "secs": [{"union": False, "hdr": None, "items": [["f", ["ref", ws["roots"][0]["name"] + ".ApxU", 1, 0], "sample"], ["f", ["u", 16, "s"], "status"], ["f", ["arr", ["ref", ws["roots"][0]["name"] + ".ApxU", 1, 0], 2], "pair"], ["f", ["u", 3, "s"], "z"]], "seal": "sealed"}]})
        # a definition that has an *approximately equal* revision: same name, version, kind, min, max and residues mod 32 of the
        # length set, but different members ({16, 24, ..} with and without a gap); its _bit_length_ is printed in both passes
        apx = None
        root = ws["roots"][0]
        if rng.random() < 0.35 and (root["name"] + ".Apx").lower() not in {d["name"].lower() for d in root["defs"]}:
            a, m = rng.choice([(3, 5), (3, 6), (4, 6), (4, 7), (5, 7), (5, 8)])
            body_a = [["f", ["u", 8, "s"], "h"], ["f", ["var", ["u", 8, "s"], a + m], "p"]]
            body_b = [["f", ["var", ["u", 8, "s"], a], "p"], ["f", ["var", ["u", 8 * m, "s"], 1], "e"]]
            first, second = (body_a, body_b) if rng.random() < 0.5 else (body_b, body_a)
            hosts = [(ri0, di0) for ri0, di0 in keys if not ws["roots"][ri0]["defs"][di0].get("dep") or True]
            root["defs"].append({"name": root["name"] + ".Apx", "ver": [1, 0], "port": None, "ext": "dsdl", "dep": False,
                                 "secs": [{"union": False, "hdr": None, "items": first, "seal": "sealed"}]})
            apx = {"key": root["name"] + ".Apx.1.0", "alt_items": second}
            ri0, di0 = rng.choice(hosts)
            prints.append([ri0, di0, 0, 0, "bl", 0, apx["key"]])
        # base offset sets; one pair is *approximately equal* (same min, max and residues mod 32, different members)
        bases = [sorted({rng.choice([0, 1, 3, 8, 13, 16, 32, 64, 71]) for _ in range(rng.randint(1, 3))}) for _ in range(2)]
        lo = rng.choice([0, 8, 3])
        bases += [[lo, lo + 64], [lo, lo + 32, lo + 64]] if rng.random() < 0.5 else [[lo, lo + 32, lo + 64], [lo, lo + 64]]
        return {"ws": ws, "prints": prints, "value_seed": rng.randrange(1 << 30), "bases": bases, "apx": apx}

    def execute(self, scn: dict) -> Outcome:
        from .c06 import permuted_revision
        out = Outcome()
        self._once(scn, out)
        # history: a second revision (same type names, permuted / renamed fields) analysed in the same process
        ws2 = permuted_revision(scn["ws"], scn["value_seed"])
        if ws2 is not None and not out.viol:
            try:
                W.validate_ws(ws2)
            except InvalidScenario:
                ws2 = None
            if ws2 is not None:
                out.stats["second_revision_in_same_process"] += 1
                keep = [p0 for p0 in scn.get("prints", []) if len(p0) > 6]
                if scn.get("apx"):
                    import copy
                    for r0 in ws2["roots"]:
                        for d0 in r0["defs"]:
                            if T.def_key(d0) == scn["apx"]["key"]:
                                d0["secs"][0]["items"] = copy.deepcopy(scn["apx"]["alt_items"])
                self._once(dict(scn, ws=ws2, prints=keep), out)
        return out

    def _once(self, scn: dict, out: Outcome) -> Outcome:
        from ..worlds.workspace import World
        import pydsdl
        uni0 = W.validate_ws(scn["ws"])
        # O3: insert print directives (they do not change the types)
        ws = copy.deepcopy(scn["ws"])
        expect_prints = []
        inserted: list[tuple] = []
        extra_refs: dict[str, set] = {}
        msgs = [k for k in uni0.defs if not T.is_service(uni0.defs[k])]
        for n, entry in enumerate(scn.get("prints", [])):
            ri, di, si, idx, what, salt = entry[:6]
            explicit = entry[6] if len(entry) > 6 else None
            try:
                d = ws["roots"][ri]["defs"][di]
                s = d["secs"][si]
            except (IndexError, KeyError):
                raise InvalidScenario("print site")
            tagk = "P%dQ" % n
            orig = scn["ws"]["roots"][ri]["defs"][di]
            # position in the *original* item list (earlier insertions shift indexes; recompute by counting raw markers)
            pos = min(idx, len(orig["secs"][si]["items"]))
            shift = sum(1 for it in s["items"][: pos + 8] if it[0] == "raw" and False)
            real_pos = pos + sum(1 for (a, b, c, i2) in inserted if (a, b, c) == (ri, di, si) and i2 <= idx)
            if what == "offset":
                node = offset_at(uni0.res, orig, si, pos)
                if node.work() > 3000:
                    continue
                if real_pos >= 1 and s["items"][real_pos - 1][0] in ("f", "c") and len(s["items"][real_pos - 1]) == (3 if s["items"][real_pos - 1][0] == "f" else 5) and n % 2 == 0:
                    # the attribute right above the query carries a doc comment (same line, or the lines below it): no blank line between
                    s["items"][real_pos - 1].append(["why this field exists", "first line\nsecond line of the comment"][n // 2 % 2])
                s["items"].insert(real_pos, ["raw", "@print {%d} | _offset_  # %s" % (1000000 + n, tagk), []])
                expect_prints.append((T.def_key(d), 1000000 + n, "set", set(node.expand())))
                inserted.append((ri, di, si, idx))
            elif msgs:
                k = explicit if (explicit in uni0.defs and not T.is_service(uni0.defs[explicit])) else msgs[salt % len(msgs)]
                td = uni0.defs[k]
                def reaches(a: str, b: str) -> bool:
                    seen, todo = set(), [a]
                    while todo:
                        x = todo.pop()
                        if x == b:
                            return True
                        if x in seen or x not in uni0.defs:
                            continue
                        seen.add(x)
                        todo += list(T.def_refs(uni0.defs[x])) + list(extra_refs.get(x, ()))
                    return False
                if k == T.def_key(d) or reaches(k, T.def_key(d)) or (td.get("dep") and not d.get("dep")):
                    continue
                extra_refs.setdefault(T.def_key(d), set()).add(k)
                sec = uni0.res.sec(k, 0)
                if what == "bl":
                    if sec.node().work() > 3000:
                        continue
                    s["items"].insert(real_pos, ["raw", "@print {%d} | %s._bit_length_" % (1000000 + n, k), [k]])
                    expect_prints.append((T.def_key(d), 1000000 + n, "set", set(sec.node().expand())))
                    inserted.append((ri, di, si, idx))
                else:
                    s["items"].insert(real_pos, ["raw", "@print {%d, %s._extent_}" % (1000000 + n, k), [k]])
                    expect_prints.append((T.def_key(d), 1000000 + n, "set", {sec.extent}))
                    inserted.append((ri, di, si, idx))
        from ..model.namespace import Universe
        uni = Universe(ws)
        w = World({"ws": ws})
        try:
            types = {}
            prints = []
            nroots = len(uni.roots)
            for ri in range(nroots):
                res = w.run_read({"op": "rn", "root": {"p": uni.roots[ri]["dir"]}, "lookups": [{"p": uni.roots[x]["dir"]} for x in range(nroots) if x != ri], "key": None, "cwd": ""})
                if not res["ok"]:
                    out.fail("C08.intrinsic", "namespace with @print of layout intrinsics rejected: %s: %s" % (type(res["exc"]).__name__, str(res["exc"])[:300]), "rejected:" + type(res["exc"]).__name__)
                    return out
                prints += res["prints"]
                for t in res["direct"]:
                    types[str(t)] = t
            for key, marker, kind, want in expect_prints:
                got = [parse_set(tx) for (_p, _l, tx) in prints if str(marker) in tx]
                got = [g for g in got if g is not None]
                if not got:
                    out.fail("C08.intrinsic", "print %d in %s was not delivered" % (marker, key), "print-missing")
                    continue
                out.stats["intrinsic_prints"] += 1
                for g in got:
                    if g - {marker} != want:
                        out.fail("C08.intrinsic", "%s: in-language value %s, API/model value %s" % (key, sorted(g - {marker})[:16], sorted(want)[:16]), "intrinsic")
            res0 = uni0.res
            self._yielded = []
            for k, t in types.items():
                d = uni0.defs[k]
                secs = [(0, t.request_type), (1, t.response_type)] if T.is_service(d) else [(0, t)]
                for si, real in secs:
                    sec = res0.sec(k, si)
                    feats = type_features(res0, sec)
                    self._check_offsets(out, pydsdl, res0, sec, real, B.Leaf({0}), pydsdl.BitLengthSet(0), "%s[%d]" % (k, si), 0)
                    for base in scn.get("bases", []):
                        if not base:
                            continue
                        self._check_offsets(out, pydsdl, res0, sec, real, B.Leaf(set(base)), pydsdl.BitLengthSet(set(base)), "%s[%d] base %s" % (k, si, base), 0, messages=False)
                        out.stats["bases"] += 1
                    # messages: observed start bits
                    nshapes = V.count_sec_shapes(sec, 401)
                    exhaustive = nshapes <= 400
                    if exhaustive:
                        values = list(V.all_sec_shapes(sec))
                        out.stats["exhaustive_types"] += 1
                    else:
                        values = [V.gen_composite(random.Random(scn["value_seed"] + i * 31 + len(k)), sec, in_range=True, p_omit=0.1) for i in range(12)]
                    observed: dict[str, set[int]] = {}
                    has_delimited = (not sec.sealed) or any(not res0.sec(x, 0).sealed for x in uni0.closure([k]) if x != k and not T.is_service(uni0.defs[x]))
                    for v in values:
                        _b, marks = R.encode(res0, k, si, v, with_header=not sec.sealed)
                        for p, off in marks:
                            observed.setdefault(re.sub(r"\[\d+\]", "[]", p) if False else p, set()).add(off)
                        out.stats["messages"] += 1
                    sec_expandable = expandable(sec.node()) and expandable(sec.inner)
                    api = self._api_offsets(pydsdl, real, pydsdl.BitLengthSet(0), "")
                    for path, offs in api.items():
                        if path not in observed:
                            continue
                        if offs.min > min(observed[path]) or offs.max < max(observed[path]):
                            out.fail("C08.sound", "%s[%d]: field %s was written at bits %s, outside the offset set [%d..%d]" % (k, si, path, sorted(observed[path])[:8], offs.min, offs.max), "sound")
                            continue
                        small = (offs.max - offs.min) <= 4096 and sec_expandable
                        es = None
                        if small:
                            from ..worlds.realcanon import safe_expand
                            es = safe_expand(offs)
                        if es is not None:
                            if not observed[path] <= es:
                                out.fail("C08.sound", "%s[%d]: field %s was written at bits %s which are not in the offset set %s" % (k, si, path, sorted(observed[path] - es)[:8], sorted(es)[:16]), "sound")
                            elif exhaustive and not has_delimited and observed[path] != es:
                                out.fail("C08.complete", "%s[%d]: offset set of %s contains %s which no representation attains" % (k, si, path, sorted(es - observed[path])[:8]), "complete")
                        out.stats["fields_checked"] += 1
                    out.shapes.append(digest([sorted(x for x in feats if not x.startswith("n:")), exhaustive]))
                    if feats & {"var", "subbyte", "nested"}:
                        out.nontrivial = True
            # history: offset objects YIELDED by the library for primitive fields (unaligned in general) are handed back as the base
            # offset of other composites, as an unrolling code generator does
            ylist, self._yielded = list(self._yielded), None
            secs_all = []
            for k, t in types.items():
                d = uni0.defs[k]
                for si, real in ([(0, t.request_type), (1, t.response_type)] if T.is_service(d) else [(0, t)]):
                    secs_all.append((k, si, real))
            for yi, (off, node, src) in enumerate(ylist[:12]):
                if not secs_all or node.work() > 2000:
                    continue
                k, si, real = secs_all[(yi * 5 + len(src)) % len(secs_all)]
                self._check_offsets(out, pydsdl, res0, res0.sec(k, si), real, node, off, "%s[%d] base = the offset object yielded for %s" % (k, si, src), 0, messages=False)
                out.stats["yielded_offsets_reused_as_base"] += 1
            out.obs.append([len(types), out.stats["fields_checked"]])
        finally:
            w.close()
        return out

    def _api_offsets(self, pydsdl, real, base, prefix: str, depth: int = 0) -> dict:
        """Offsets as a code generator composes them: nested composites and fixed arrays get the field's offset as base."""
        out = {}
        for fi, (f, off) in enumerate(real.iterate_fields_with_offsets(base)):
            name = f.name if f.name else "<pad%d>" % fi
            path = prefix + "." + name
            if path in out:
                continue
            out[path] = off
            self._descend(pydsdl, f.data_type, off, path, out, depth)
        return out

    def _descend(self, pydsdl, t, off, path, out, depth) -> None:
        if depth > 4:
            return
        if isinstance(t, pydsdl.CompositeType):
            for p, o in self._api_offsets(pydsdl, t, off, path, depth + 1).items():
                out[p] = o
        elif isinstance(t, pydsdl.FixedLengthArrayType) and t.capacity <= 8:
            for idx, eo in t.enumerate_elements_with_offsets(off):
                ep = "%s[%d]" % (path, idx)
                out[ep] = eo
                self._descend(pydsdl, t.element_type, eo, ep, out, depth + 1)

    def _check_offsets(self, out, pydsdl, res, sec, real, base_node, base_real, where, depth, messages=True) -> None:
        model = sec.offsets(base_node)
        if depth == 0:
            # history: a client that obtained the attribute lists earlier and modified its copies (sorting, filtering in place)
            # before asking for offsets - "every field exactly once, in order" holds regardless
            for obj in (real, getattr(real, "inner_type", real)):
                for acc in ("fields", "fields_except_padding", "attributes", "constants"):
                    lst = getattr(obj, acc, None)
                    if isinstance(lst, list) and lst:
                        lst.reverse()
                        lst.pop()
                        out.stats["client_list_mutations"] += 1
        got = list(real.iterate_fields_with_offsets(base_real))
        if depth == 0 and base_node.lo == 0 and base_node.hi == 0:
            # the base offset is optional: leaving it out means {0}
            bare = list(real.iterate_fields_with_offsets())
            if [(f.name, o.min, o.max, sorted(o % 16)) for f, o in bare] != [(f.name, o.min, o.max, sorted(o % 16)) for f, o in got]:
                out.fail("C08.base", "%s: iterate_fields_with_offsets() without an argument yields %s, with the base offset {0} it yields %s" % (
                    where, [(f.name, o.min, o.max) for f, o in bare][:6], [(f.name, o.min, o.max) for f, o in got][:6]), "default-base")
            out.stats["default_base_calls"] += 1
        if [f.name for f, _o in got] != [(n or "") for n, _t, _o in model]:
            out.fail("C08.base", "%s: fields yielded %s, model %s" % (where, [f.name for f, _o in got], [n for n, _t, _o in model]), "order")
            return
        for (f, off), (n, t, node) in zip(got, model):
            if depth == 0 and t[0] not in ("ref", "arr", "var") and getattr(self, "_yielded", None) is not None and len(self._yielded) < 40:
                self._yielded.append((off, node, where + "." + (n or "<pad>")))
            bad = same_set(off, node)
            if bad:
                out.fail("C08.base" if len(base_node.expand()) > 1 or base_node.lo else "C08.sound", "%s: offset of field %r: %s" % (where, n, bad), "offset-set")
            dt = f.data_type
            if isinstance(dt, pydsdl.FixedLengthArrayType) and t[0] == "arr" and t[2] <= 6:
                els = list(dt.enumerate_elements_with_offsets(off))
                if off.min == 0 and off.max == 0 and [(i, o.min, o.max) for i, o in dt.enumerate_elements_with_offsets()] != [(i, o.min, o.max) for i, o in els]:
                    out.fail("C08.base", "%s: enumerate_elements_with_offsets() without an argument differs from the base offset {0}" % where, "default-base-elements")
                if [i for i, _o in els] != list(range(t[2])):
                    out.fail("C08.base", "%s: array elements yielded %s" % (where, [i for i, _o in els]), "elements")
                for i, eo in els:
                    enode = B.Cat(B.Pad(node, T.align(res, t)), B.Rep(T.bls(res, t[1]), i))
                    bad = same_set(eo, enode)
                    if bad:
                        out.fail("C08.base", "%s: offset of element %d of %r: %s" % (where, i, n, bad), "element-offset")
            if depth < 2 and t[0] == "ref" and isinstance(dt, pydsdl.CompositeType):
                self._check_offsets(out, pydsdl, res, res.ref_sec(t), dt, node, off, where + "." + (n or ""), depth + 1, messages)


CHECK = C08()
