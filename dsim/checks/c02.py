"""C02 - every type's layout (lengths, alignment, extent, prefixes) is the Specification (World X by-product; pure)."""
from __future__ import annotations
import random
from ..core.scenario import digest
from ..model import types as T
from ..model import gen as G
from ..model import refcodec as R
from ..model import valgen as V
from .base import Check, Outcome, InvalidScenario
from . import wcommon as W
from .c06 import gen_wire_ws, type_features

BOUNDARY_CAPS = [1, 2, 254, 255, 256, 257, 65534, 65535, 65536, 65537, 2**32 - 1, 2**32, 2**32 + 1, 2**48, 2**53 + 1, 2**56 + 1, 2**63, 2**64 - 1]
VARIANTS = [2, 3, 255, 256, 257]


class C02(Check):
    PROP = "C02"
    CRASH_ORACLE = "C02.lenset"
    WORLD = "X"
    RULE = ("each run = one generated namespace (all primitive widths, nested arrays / structures / unions / delimited types, random "
            "field orders) plus one definition with arrays at the prefix-width boundary capacities (255/256, 65535/65536, "
            "2**32-1/2**32, 2**63) and one union at the tag-width boundary (255/256/257 variants), read by the real front end. "
            "For every type: alignment_requirement, extent, prefix / tag / header widths, bit_length_set (exact set when small, "
            "else min / max / residues mod 8, 32, 64 from the independent modular algebra), every length a multiple of the "
            "alignment, delimited = header + {0, 8, ..., extent}; for sealed types with <= 400 shapes the set must equal the set of "
            "lengths actually produced when every combination of array lengths and union variants is serialized. Pure function "
            "of the definition - claimed as a by-product of the reference peer. distinct = hash of type features + boundary "
            "class; non-trivial = nesting depth >= 2 or a boundary capacity / variant count")
    RULE = RULE + "; " + 'rounds 7-8: structures with 62-200 mostly sub-byte fields and late nested composites; copies of every other type (pickle 0 / highest, deepcopy, copy) matched like the originals (copies that hit the recursion limit are known finding F20)'
    TIERS = {"quick": {"runs": 480, "budget_s": 50}, "thorough": {"runs": 30000, "budget_s": 900}}

    def generate(self, rng: random.Random, r: int, tier: str) -> dict:
        ws = gen_wire_ws(rng, defs=(2, 6), max_cap=4, p_service=0.2)
        root = ws["roots"][0]
        rn = root["name"]
        used = {d["name"].lower() for d in root["defs"]}
        items = []
        for i in range(rng.randint(2, 5)):
            el = rng.choice([["bool"], ["u", 8, "s"], ["u", 3, "t"], ["i", 16], ["f", 32, "s"], ["byte"], ["u", 64, "s"]])
            cap = rng.choice(BOUNDARY_CAPS)
            kind = rng.choice(["var", "var", "arr"])
            if el == ["byte"] and kind == "arr":
                kind = "var"
            items.append(["f", [kind, el, cap], "b%d" % i])
        if (rn + ".Bnd").lower() not in used:
            root["defs"].append({"name": rn + ".Bnd", "ver": [1, 0], "port": None, "ext": "dsdl", "dep": False,
                                 "secs": [{"union": rng.random() < 0.3 and len(items) >= 2, "hdr": None, "items": items, "seal": "sealed"}]})
        if rng.random() < 0.2 and (rn + ".TagK").lower() not in used:
            # a union with few variants and so many constants that variants + constants crosses a tag-width boundary
            nv2 = rng.choice([2, 3])
            nconst = rng.choice([253, 254, 255, 256]) - nv2 + rng.choice([0, 1, 2])
            vit = [["f", rng.choice([["u", 8, "s"], ["u", 13, "t"], ["var", ["u", 8, "s"], 2]]), "v%d" % i] for i in range(nv2)]
            cit = [["c", ["u", 16, "s"], "K%d" % i, str(i), [i, 1]] for i in range(nconst)]
            root["defs"].append({"name": rn + ".TagK", "ver": [1, 0], "port": None, "ext": "dsdl", "dep": False,
                                 "secs": [{"union": True, "hdr": None, "items": vit + cit, "seal": "sealed"}]})
        if rng.random() < 0.2 and (rn + ".ApxU").lower() not in {d["name"].lower() for d in root["defs"]}:
            # a union whose variants have different but approximately equal length sets (same min, max and residues mod 32), the
            # sparser one first, followed by another field in a host structure
            a1, a2 = rng.choice([(["var", ["f", 64, "s"], 1], ["var", ["f", 32, "s"], 2]), (["var", ["u", 64, "s"], 1], ["var", ["u", 32, "s"], 2]), (["var", ["u", 64, "t"], 2], ["var", ["u", 32, "t"], 4])])
            vs = [["f", a1, "wide"], ["f", a2, "narrow"]] + ([["f", ["u", 8, "s"], "tiny"]] if rng.random() < 0.4 else [])
            root["defs"].append({"name": rn + ".ApxU", "ver": [1, 0], "port": None, "ext": "dsdl", "dep": False,
                                 "secs": [{"union": True, "hdr": None, "items": vs, "seal": "sealed"}]})
            root["defs"].append({"name": rn + ".ApxUHost", "ver": [1, 0], "port": None, "ext": "dsdl", "dep": False,
                                 "secs": [{"union": False, "hdr": None, "items": [["f", ["ref", rn + ".ApxU", 1, 0], "sample"], ["f", ["u", 16, "s"], "status"], ["f", ["arr", ["ref", rn + ".ApxU", 1, 0], 2], "pair"], ["f", ["u", 3, "s"], "z"]], "seal": "sealed"}]})
        if rng.random() < 0.25 and not ({(rn + ".Long").lower(), (rn + ".LongPart").lower()} & used):
            # a structure with many fields (around and beyond 64, 128): mostly sub-byte primitives and padding, so that hardly any
            # field starts on a byte boundary, with nested composites / arrays of composites at scattered positions, late ones included
            root["defs"].append({"name": rn + ".LongPart", "ver": [1, 0], "port": None, "ext": "dsdl", "dep": False,
                                 "secs": [{"union": False, "hdr": None, "items": [["f", ["u", 8, "s"], "a"], ["f", ["u", 3, "s"], "b"]], "seal": "sealed"}]})
            pref = ["ref", rn + ".LongPart", 1, 0]
            nf = rng.choice([62, 63, 64, 65, 66, 70, 96, 127, 128, 129, 130, 160, 200])
            comp_at = set(rng.sample(range(nf), rng.randint(2, 6))) | {nf - 1 - rng.randrange(3), min(nf - 1, 64 + rng.randrange(4))}
            litems = []
            for i in range(nf):
                if i in comp_at:
                    litems.append(["f", rng.choice([pref, ["arr", pref, 2], ["var", pref, 2], ["var", ["u", 8, "s"], 2]]), "c%d" % i])
                elif rng.random() < 0.15:
                    litems.append(["p", rng.choice([1, 2, 3, 5, 7])])
                else:
                    litems.append(["f", rng.choice([["bool"], ["u", 1, "s"], ["u", 3, "t"], ["u", 5, "s"], ["i", 7, "s"], ["u", 2, "s"], ["u", 9, "t"]]), "s%d" % i])
            root["defs"].append({"name": rn + ".Long", "ver": [1, 0], "port": None, "ext": "dsdl", "dep": False,
                                 "secs": [{"union": False, "hdr": None, "items": litems, "seal": "sealed" if rng.random() < 0.7 else 8 * 4096}]})
        nv = rng.choice(VARIANTS)
        if (rn + ".Tag").lower() not in used:
            vitems = [["f", rng.choice([["bool"], ["u", 8, "s"], ["u", 13, "t"], ["var", ["u", 8, "s"], 2]]), "v%d" % i] for i in range(nv)]
            root["defs"].append({"name": rn + ".Tag", "ver": [1, 0], "port": None, "ext": "dsdl", "dep": False,
                                 "secs": [{"union": True, "hdr": None, "items": vitems, "seal": "sealed" if rng.random() < 0.6 else 8 * 64}]})
        # delimited types whose extent is beyond what a double can represent exactly (and a container of one)
        if rng.random() < 0.3 and not ({(rn + ".Wide").lower(), (rn + ".WideHost").lower()} & used):
            ext = 8 * rng.choice([2**53 + 1, 2**57 + 1, 2**60 + 3, 2**61 - 1, (2**64 - 8) // 8, 2**70 + 5, 2**40 + 1])
            root["defs"].append({"name": rn + ".Wide", "ver": [1, 0], "port": None, "ext": "dsdl", "dep": False,
                                 "secs": [{"union": False, "hdr": None, "items": [["f", ["u", 8, "s"], "a"], ["f", ["var", ["u", 16, "s"], 3], "b"]], "seal": ext}]})
            wref = ["ref", rn + ".Wide", 1, 0]
            root["defs"].append({"name": rn + ".WideHost", "ver": [1, 0], "port": None, "ext": "dsdl", "dep": False,
                                 "secs": [{"union": False, "hdr": None, "items": [["f", ["u", 3, "s"], "pre"], ["f", wref, "w"], ["f", ["arr", wref, 2], "ws"], ["f", ["u", 8, "s"], "tail"]], "seal": "sealed"}]})
        # a definition with an *approximately equal* second revision (same name, version, kind, min, max and residues mod 32 of
        # the length set, different members) used as the element of a fixed and of a variable-length array
        apx = None
        if rng.random() < 0.4 and not ({(rn + ".Apx").lower(), (rn + ".ApxHost").lower()} & used):
            a, m = rng.choice([(3, 5), (3, 6), (4, 6), (4, 7), (5, 7), (5, 8), (1, 8)])
            body_a = [["f", ["u", 8, "s"], "h"], ["f", ["var", ["u", 8, "s"], a + m], "p"]]
            body_b = [["f", ["var", ["u", 8, "s"], a], "p"], ["f", ["var", ["u", 8 * m, "s"], 1], "e"]]
            if rng.random() < 0.3:
                body_a, body_b = [["f", ["var", ["u", 32, "s"], 2], "a"]], [["f", ["var", ["u", 64, "s"], 1], "a"]]
            first, second = (body_a, body_b) if rng.random() < 0.5 else (body_b, body_a)
            root["defs"].append({"name": rn + ".Apx", "ver": [1, 0], "port": None, "ext": "dsdl", "dep": False,
                                 "secs": [{"union": False, "hdr": None, "items": first, "seal": "sealed"}]})
            ref = ["ref", rn + ".Apx", 1, 0]
            root["defs"].append({"name": rn + ".ApxHost", "ver": [1, 0], "port": None, "ext": "dsdl", "dep": False,
                                 "secs": [{"union": False, "hdr": None, "items": [["f", ["arr", ref, rng.randint(2, 3)], "fa"], ["f", ["var", ref, 2], "va"], ["f", ref, "one"], ["f", ["var", ref, 3], "vb"], ["f", ["arr", ref, 2], "fb"], ["f", ["u", 8, "s"], "tail"]], "seal": "sealed"}]})
            apx = {"key": rn + ".Apx.1.0", "alt_items": second}
        return {"ws": ws, "apx": apx}

    def execute(self, scn: dict) -> Outcome:
        from .c06 import permuted_revision
        import copy
        out = Outcome()
        try:
            return self._execute(scn, out)
        except InvalidScenario:
            raise
        except Exception as ex:
            from .base import raised_inside_sut
            if not raised_inside_sut(ex):
                raise
            import traceback
            out.fail("C02.lenset", "a layout query on a valid type raised %s: %s\n%s" % (type(ex).__name__, str(ex)[:200], "".join(traceback.format_tb(ex.__traceback__)[-3:])[-600:]), "query-raised:" + type(ex).__name__)
            return out

    def _execute(self, scn: dict, out: Outcome) -> Outcome:
        from .c06 import permuted_revision
        import copy
        self._run(scn["ws"], out)
        ws2 = permuted_revision(scn["ws"], 12345)
        if scn.get("apx"):
            ws2 = ws2 if ws2 is not None else copy.deepcopy(scn["ws"])
            for r0 in ws2["roots"]:
                for d0 in r0["defs"]:
                    if T.def_key(d0) == scn["apx"]["key"]:
                        d0["secs"][0]["items"] = copy.deepcopy(scn["apx"]["alt_items"])
            out.stats["approximately_equal_revision"] += 1
        if ws2 is not None:
            try:
                W.validate_ws(ws2)
            except InvalidScenario:
                ws2 = None
        if ws2 is not None:
            out.stats["second_revision_in_same_process"] += 1
            self._run(ws2, out)
        return out

    def _run(self, ws: dict, out: Outcome) -> Outcome:
        from ..worlds.wire import Node, NodeError
        from ..worlds import realcanon
        import pydsdl
        uni0 = W.validate_ws(ws)
        try:
            node = Node(ws)
        except NodeError as ex:
            out.fail("C02.lenset", "valid namespace rejected by the front end: %s" % ex, "frontend-rejected")
            return out
        try:
            res = node.uni.res
            def client_arithmetic():
                # history: a client computes with the sets it got from the types (offsets of its own, buffer sizes); the sets are
                # values - building new sets from them must not change the types they came from
                for k, t in node.types.items():
                    parts = [t.request_type, t.response_type] if isinstance(t, pydsdl.ServiceType) else [t]
                    for p0 in parts:
                        for obj in [p0] + [f.data_type for f in p0.fields] + [f.data_type.element_type for f in p0.fields if isinstance(f.data_type, pydsdl.ArrayType)]:
                            b0 = obj.bit_length_set
                            _ = (b0 + 16, 8 + b0, b0 | 8, b0 + {0, 8}, b0.repeat(2), b0.repeat_range(2), b0.pad_to_alignment(8), pydsdl.BitLengthSet.concatenate([b0, 8, b0]), pydsdl.BitLengthSet.unite([b0, b0 + 8]))
                            out.stats["client_set_arithmetic"] += 1
            arithmetic_first = len(node.types) % 2 == 0  # before anything was queried (nothing memoised yet) or after
            if arithmetic_first:
                client_arithmetic()
            m = realcanon.Matcher(res, explicit_limit=3000)
            from ..worlds.values import rebuild, CONTAINERS
            for i, (k, t) in enumerate(node.types.items()):
                m.message(k, k, t, docs=False)
                # "every data type pydsdl can build": the same type built through the public constructors from its own
                # attributes, handed over as some kind of iterable, has the same layout
                kind = CONTAINERS[(len(k) + i) % len(CONTAINERS)]
                try:
                    new, _arg = rebuild(t, kind)
                except Exception as ex:
                    out.fail("C02.lenset", "%s: the public constructor rejected the type's own attributes handed over as a %s: %s: %s" % (k, kind, type(ex).__name__, ex), "ctor-raised:" + kind)
                    continue
                out.stats["rebuilt_through_public_constructor"] += 1
                m.message("%s (rebuilt through the public constructor from a %s)" % (k, kind), k, new, docs=False)
                # ... and so has a copy of it that went through pickle / deepcopy / copy (a client that caches the model between runs)
                if (len(k) + i) % 2 == 0:
                    import pickle as _pk, copy as _cp
                    how = ["pickle-0", "pickle-highest", "deepcopy", "copy"][(len(k) + i) // 2 % 4]
                    try:
                        cp = (_pk.loads(_pk.dumps(t, 0)) if how == "pickle-0" else _pk.loads(_pk.dumps(t, _pk.HIGHEST_PROTOCOL)) if how == "pickle-highest"
                              else _cp.deepcopy(t) if how == "deepcopy" else _cp.copy(t))
                    except RecursionError:
                        cp = None  # structures with many fields cannot be pickled / deep-copied: known finding F20 (reported by C18)
                        out.stats["copy_hit_recursion_limit_F20"] += 1
                    if cp is not None:
                        out.stats["copied_model_objects"] += 1
                        m.message("%s (copy made with %s)" % (k, how), k, cp, docs=False)
                # ... and with the constants placed between the fields: the layout only depends on the fields and their order
                try:
                    mixed, _a2 = rebuild(t, "list", interleave=True)
                    def lite(x):
                        parts = [x.request_type, x.response_type] if isinstance(x, pydsdl.ServiceType) else [x]
                        return [[type(p0).__name__, p0.extent, realcanon.bls_cheap(p0.bit_length_set), p0.alignment_requirement, [f.name for f in p0.fields], sorted(c.name for c in p0.constants),
                                 p0.inner_type.tag_field_type.bit_length if isinstance(p0.inner_type, pydsdl.UnionType) else None,
                                 [[f.name, off.min, off.max, sorted(off % 16)] for f, off in p0.iterate_fields_with_offsets()]] for p0 in parts]
                    if lite(mixed) != lite(t):
                        out.fail("C02.lenset", "%s: built through the public constructor with its constants placed between its fields, the type's layout is %s; with the fields first it is %s" % (k, lite(mixed), lite(t)), "ctor-interleaved")
                except Exception as ex:
                    from .base import raised_inside_sut
                    if not raised_inside_sut(ex):
                        raise
                    out.fail("C02.lenset", "%s: the public constructor raised %s for the type's own attributes with constants between the fields" % (k, type(ex).__name__), "ctor-interleaved-raised")
            # types that only the constructors can build: arrays of arrays
            from ..model import blsref as B2
            for n1, n2, w0 in ((3, 2, 8), (2, 3, 5), (1, 4, 16), (4, 1, 1)):
                el = pydsdl.UnsignedIntegerType(w0, pydsdl.PrimitiveType.CastMode.TRUNCATED) if w0 > 1 else pydsdl.BooleanType()
                leaf = B2.Leaf({w0})
                fa, va = pydsdl.FixedLengthArrayType(el, n1), pydsdl.VariableLengthArrayType(el, n1)
                nfa, nva = B2.Rep(leaf, n1), B2.Cat(B2.Leaf({T.prefix_width(n1)}), B2.Rng(leaf, n1))
                for real_t, want_node in ((pydsdl.VariableLengthArrayType(fa, n2), B2.Cat(B2.Leaf({T.prefix_width(n2)}), B2.Rng(nfa, n2))), (pydsdl.FixedLengthArrayType(fa, n2), B2.Rep(nfa, n2)),
                                     (pydsdl.FixedLengthArrayType(va, n2), B2.Rep(nva, n2)), (pydsdl.VariableLengthArrayType(va, n2), B2.Cat(B2.Leaf({T.prefix_width(n2)}), B2.Rng(nva, n2)))):
                    got_set = set(real_t.bit_length_set)
                    if got_set != want_node.expand():
                        out.fail("C02.lenset", "%s (built through the public constructors): bit length set %s, Specification %s" % (real_t, sorted(got_set)[:12], sorted(want_node.expand())[:12]), "api-nested-array")
                    out.stats["api_nested_arrays"] += 1
            # ... and arrays of arrays of COMPOSITES, as a field that follows a field which does not end on a byte boundary
            from pathlib import Path as _P
            comp_keys = [k0 for k0, t0 in node.types.items() if not isinstance(t0, pydsdl.ServiceType)][:2]
            for ci, k0 in enumerate(comp_keys):
                creal, cnode = node.types[k0], res.sec(k0, 0).node()
                n1, n2 = 1 + (len(k0) + ci) % 3, 1 + (len(k0) // 2 + ci) % 3
                inner_kinds = ((pydsdl.FixedLengthArrayType(creal, n1), B2.Rep(cnode, n1)), (pydsdl.VariableLengthArrayType(creal, n1), B2.Cat(B2.Leaf({T.prefix_width(n1)}), B2.Rng(cnode, n1))))
                for ireal, inode in inner_kinds:
                    for oreal, onode in ((pydsdl.FixedLengthArrayType(ireal, n2), B2.Rep(inode, n2)), (pydsdl.VariableLengthArrayType(ireal, n2), B2.Cat(B2.Leaf({T.prefix_width(n2)}), B2.Rng(inode, n2)))):
                        out.stats["api_nested_arrays_of_composites"] += 1
                        if oreal.alignment_requirement != 8 or ireal.alignment_requirement != 8:
                            out.fail("C02.align", "%s (built through the public constructors): alignment requirement %d / inner %d, an array is aligned like its element (8 for a composite)" % (oreal, oreal.alignment_requirement, ireal.alignment_requirement), "api-nested-array-alignment")
                        if onode.work() > 3000:
                            continue
                        u7 = pydsdl.UnsignedIntegerType(7, pydsdl.PrimitiveType.CastMode.TRUNCATED)
                        host = pydsdl.StructureType(name="api_ns.Host", version=pydsdl.Version(1, 0), attributes=[pydsdl.Field(u7, "a"), pydsdl.Field(oreal, "b"), pydsdl.Field(pydsdl.BooleanType(), "c")],
                                                    deprecated=creal.deprecated, fixed_port_id=None, source_file_path=_P("api_ns") / "Host.1.0.dsdl", has_parent_service=False)
                        want_host = B2.Pad(B2.Cat(B2.Cat(B2.Pad(B2.Leaf({7}), 8), onode), B2.Leaf({1})), 8)
                        m.bls("%s as a field after uint7 (built through the public constructors)" % oreal, want_host, host.bit_length_set)
                        offs = {f.name: o for f, o in host.iterate_fields_with_offsets()}
                        if set(offs["b"]) != {8}:
                            out.fail("C02.align", "%s as a field after uint7: starts at %s, must start at 8" % (oreal, sorted(offs["b"])[:4]), "api-nested-array-offset")
            for _once in [0]:
                pass
            for b in m.bad[:5]:
                oracle = "C02.prefix" if ("prefix" in b or "tag width" in b or "header" in b) else "C02.align" if "alignment" in b else "C02.extent" if "extent" in b else "C02.lenset"
                out.fail(oracle, b, oracle.split(".")[1] + ":" + b.split(": ", 1)[-1].split(" ")[0])
            if not arithmetic_first:
                client_arithmetic()
            m2 = realcanon.Matcher(res, explicit_limit=3000)
            for k, t in node.types.items():
                m2.message(k + " (after client arithmetic on its bit length sets)", k, t, docs=False)
            for b in m2.bad[:3]:
                out.fail("C02.lenset", b, "client-arithmetic:" + b.split(": ", 1)[-1].split(" ")[0])
            for key, si, real, sec in node.sections():
                feats = type_features(res, sec)
                bls = real.bit_length_set
                a = real.alignment_requirement
                if not bls.is_aligned_at(a) or not bls.is_aligned_at_byte():
                    out.fail("C02.align", "%s[%d]: a possible length is not a multiple of the alignment %d" % (key, si, a), "align")
                self._walk_arrays(out, pydsdl, real, "%s[%d]" % (key, si))
                depth = self._depth(res, sec)
                boundary = key.endswith(".Bnd.1.0") or key.endswith(".Tag.1.0")
                if depth >= 2 or boundary:
                    out.nontrivial = True
                out.shapes.append(digest([sorted(x for x in feats), depth, boundary]))
                out.stats["types"] += 1
                has_delimited = any(not res.sec(x, 0).sealed for x in node.uni.closure([key]) if x != key and not T.is_service(node.uni.defs[x]))
                if not has_delimited and V.count_sec_shapes(sec, 401) <= 400 and sec.inner.work() <= 3000 and realcanon._cheap_for_sut(sec.inner):
                    lengths = set()
                    for v in V.all_sec_shapes(sec):
                        lengths.add(8 * len(pydsdl.serialize(real, v)))
                    want = realcanon.safe_expand(real.inner_type.bit_length_set)
                    if want is not None and lengths != want:
                        out.fail("C02.observed", "%s[%d]: lengths actually produced %s, bit_length_set %s" % (key, si, sorted(lengths)[:20], sorted(want)[:20]), "observed")
                    out.stats["exhaustive_types"] += 1
            out.obs.append([len(node.types), len(m.bad)])
        finally:
            node.close()
        return out

    def _depth(self, res, sec, d=0) -> int:
        mx = 0
        for _n, t in sec.fields:
            x = t
            while x[0] in ("arr", "var"):
                x = x[1]
            if x[0] == "ref" and d < 5:
                mx = max(mx, 1 + self._depth(res, res.ref_sec(x), d + 1))
        return mx

    def _walk_arrays(self, out, pydsdl, real, where) -> None:
        for f in real.fields:
            t = f.data_type
            if isinstance(t, pydsdl.ArrayType):
                if not t.bit_length_set.is_aligned_at(t.alignment_requirement):
                    out.fail("C02.align", "%s.%s: array lengths not aligned" % (where, f.name), "align-array")
                if t.alignment_requirement != t.element_type.alignment_requirement:
                    out.fail("C02.align", "%s.%s: array alignment differs from its element's" % (where, f.name), "align-array")


CHECK = C02()
