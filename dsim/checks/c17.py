"""C17 - errors and @print output are attributed to the right file and line (World W)."""
from __future__ import annotations
import copy
import random
from ..core.scenario import digest
from ..model import gen as G
from ..model import mutate as MU
from ..model import types as T
from ..model.namespace import Universe
from .base import Check, Outcome, InvalidScenario
from . import wcommon as W


ODD_BREAKS = ["\x0b", "\x0c", "\x1c", "\x1d", "\x1e", "\x85", "\u2028", "\u2029"]


class C17(Check):
    PROP = "C17"
    RULE = ("each run = one valid workspace with dependency chains + exactly one located event: a faulty statement from the "
            "catalogue (30 immediate, 7 lazily committed, 3 finalisation-time kinds) at a seeded position of a seeded definition "
            "(target or dependency at any depth), or 1-3 @print directives with unique payloads anywhere; the formatting "
            "vector shifts lines (blank lines, comment blocks, CRLF, what follows the faulty statement). Reads: read_namespace "
            "per root and read_files on subsets in seeded orders, so the definition is reached first directly or through a "
            "referrer. Oracles: error path = the faulty file, line = the statement's line; each delivered print carries its "
            "own file and line, once per evaluation of the file. distinct = hash of (event kind, injector, depth of the "
            "definition below the targets, how it was reached, what follows the statement); non-trivial = line != 1 and (the "
            "definition is a dependency or something follows the statement)")
    TIERS = {"quick": {"runs": 1200, "budget_s": 50}, "thorough": {"runs": 60000, "budget_s": 1200}}
    ASSUMPTIONS = ["'exactly once per evaluated directive' is read per evaluation of the file's text (probe: pydsdl._parser.parse wrapper; if the "
                   "probe is unavailable the count oracle is skipped)",
                   "multi-line string literals are not generated"]

    def generate(self, rng: random.Random, r: int, tier: str) -> dict:
        ws = G.gen_workspace(rng, roots=(1, 2), defs=(2, 7), p_ref=0.7, p_cross_root=0.6, p_service=0.15, p_family=0.2)
        uni = Universe(ws)
        keys = list(uni.defs)
        scn: dict = {"ws": ws, "fmt": {}, "event": None, "read_seed": rng.randrange(1 << 30)}
        for _attempt in range(12):
            r0 = rng.random()
            if r0 < 0.08:
                scn["event"] = {"k": "error", "name": "union-offset", "def": rng.choice(keys), "seed": rng.randrange(1 << 30)}
            elif r0 < 0.14:
                scn["event"] = {"k": "error", "name": "bad-extent", "def": rng.choice([k for k in keys if T.is_service(uni.defs[k])] * 3 + keys), "seed": rng.randrange(1 << 30)}
            elif r0 < 0.24:
                scn["event"] = {"k": "error", "name": "foreign-attr", "def": rng.choice(keys), "seed": rng.randrange(1 << 30)}
            elif r0 < 0.6:
                names = [n for n, v in MU.RAW.items() if v[2] == "reject"] + sorted(MU.LAZY) + sorted(MU.FINAL)
                scn["event"] = {"k": "error", "name": rng.choice(names), "def": rng.choice(keys), "seed": rng.randrange(1 << 30), "clone": rng.random() < 0.3}
            else:
                scn["event"] = {"k": "print", "at": [[rng.choice(keys), rng.randrange(1 << 30)] for _ in range(rng.randint(1, 3))]}
                if rng.random() < 0.3:
                    scn["event"]["falsy"] = rng.choice(["", "0", "false", "''", "0.0", "1 - 1", "!true"])
                elif rng.random() < 0.3:
                    # two directives in two different files that print the SAME text, most likely from the same line number: two
                    # directives, two deliveries
                    referenced = {r0 for k0 in uni.defs for r0 in T.def_refs(uni.defs[k0])}
                    free = [k0 for k0 in keys if k0 not in referenced]
                    if len(free) >= 2:
                        k1, k2 = rng.sample(free, 2)
                        scn["event"] = {"k": "print", "at": [[k1, 1], [k2, 1]], "same_text": True}
            if self.apply_event(scn)[1]:
                break
        if rng.random() < 0.3:
            scn["esc"] = rng.randrange(1, 1 << 20)
        for k, d in uni.defs.items():
            f = G.gen_fmt(rng, d, rich=True)
            f.pop("tail", None)
            if rng.random() < 0.3:
                f["lead"] = []  # a header comment must stay first; leading lines only shift when there is none
            if rng.random() < 0.4:
                # characters that some text tools treat as line boundaries but DSDL (and text-mode file reading) does not:
                # inside a comment they must not shift any line number
                ch = rng.choice(ODD_BREAKS)
                if f.get("orphans"):
                    k0 = rng.choice(sorted(f["orphans"]))
                    f["orphans"][k0] = f["orphans"][k0] + " odd" + ch + "char" + (ch if rng.random() < 0.3 else "")
                elif d["secs"][0].get("hdr") is None and not d.get("dep") and not d["secs"][0].get("union"):
                    f["lead"] = ["# lead" + ch + "ing remark", ""]
                elif d["secs"][0]["items"]:
                    f.setdefault("orphans", {})["0:-1" if d["secs"][0].get("hdr") is not None else "0:0"] = "remark" + ch + ch + "x"
            if rng.random() < 0.12:
                f.pop("crlf", None)
                f["cr"] = True  # classic Mac line endings
            scn["fmt"][k] = f
        if scn["event"] and scn["event"].get("same_text"):
            for k0, _s in scn["event"]["at"]:
                scn["fmt"][k0] = {}
        return scn

    def _apply_event(self, scn: dict):
        ws = copy.deepcopy(scn["ws"])
        uni = Universe(ws)
        ev = scn["event"]
        sites = []  # (key, tag, payload or None, klass)
        if ev["k"] == "error":
            if ev["def"] not in uni.defs:
                raise InvalidScenario("event site unknown")
            d = uni.defs[ev["def"]]
            if ev["name"] == "union-offset":
                # `_offset_` evaluated between two variants of a union: the *next* field statement is the offending one
                rr = random.Random(ev["seed"])
                cands = [(si, s0) for si, s0 in enumerate(d["secs"]) if s0.get("union")]
                if not cands:
                    return ws, []
                si, s0 = rr.choice(cands)
                fidx = [i for i, it in enumerate(s0["items"]) if it[0] == "f"]
                if len(fidx) < 2:
                    return ws, []
                j = rr.randrange(1, len(fidx))  # the raw line goes right before field number j (>= 1 variant precedes it)
                # `_offset_` expands the set numerically (documented): only where that is cheap, or the run is about cost, not lines
                from ..worlds import realcanon as _rc
                try:
                    node0 = T.Sec(T.Resolver(dict(uni.defs)), d, si).inner
                    if node0.work() > 2000 or not _rc._cheap_for_sut(node0):
                        return ws, []
                except Exception:
                    return ws, []
                s0["items"].insert(fidx[j], ["raw", "@assert _offset_.count >= 1", []])
                sites.append((ev["def"], "%d:%d" % (si, fidx[j] + 1), None, "lazy"))
                return ws, sites
            if ev["name"] == "bad-extent":
                # an @extent that is too small or not a multiple of 8: detected when the schema is finalised; a reported line, if
                # any, must be the line of THAT directive (a service has two of them)
                rr = random.Random(ev["seed"])
                res0 = T.Resolver(dict(uni.defs))
                si = rr.randrange(len(d["secs"]))
                inner = T.Sec(res0, d, si).inner_extent
                bad = rr.choice([inner - 8, inner + 4, inner + 1] if inner >= 8 else [4, 12, 1])
                d["secs"][si]["seal"] = "@extent %d" % bad
                if len(d["secs"]) == 2:
                    # the other section gets a (valid) extent of its own, so that there are two directives to confuse
                    oi = 1 - si
                    other = T.Sec(res0, d, oi).inner_extent
                    d["secs"][oi]["seal"] = "@extent %d" % (other + 8 * rr.choice([0, 1, 3]))
                sites.append((ev["def"], "%d:seal" % si, None, "seal-line"))
                return ws, sites
            if ev["name"] == "foreign-attr":
                # an expression that asks ANOTHER (valid, visible) composite type for an attribute it does not have: the offending
                # statement is the referring one, in this file - not the file that defines the other type
                rr = random.Random(ev["seed"])
                cands = [k for k, x in uni.defs.items() if k != ev["def"] and ev["def"] not in uni.closure([k]) and (d.get("dep") or not x.get("dep"))]
                if not cands:
                    return ws, []
                tk = rr.choice(sorted(cands))
                td = uni.defs[tk]
                tname = "%s.%d.%d" % (td["name"], td["ver"][0], td["ver"][1])
                fields = [it[2] for it in td["secs"][0]["items"] if it[0] == "f"]
                attr = rr.choice(["NO_SUCH_CONST_", "nope_attr", "Request", "_extent", "min"] + fields[:2] + (["request", "response"] if T.is_service(td) else []))
                text = rr.choice(["@assert %s.%s == 1", "@print %s.%s", "uint8 Q_FA = %s.%s", "uint8[<=%s.%s] q_fa", "@assert (%s.%s + 1) > 0"]) % (tname, attr)
                si = rr.randrange(len(d["secs"]))
                items = d["secs"][si]["items"]
                idx = rr.randint(0, len(items))
                if d["secs"][si].get("union") and text.startswith("uint8[") and False:
                    return ws, []
                items.insert(idx, ["raw", text, [tk]])
                if text.startswith("uint8[") and isinstance(d["secs"][si].get("seal"), int):
                    d["secs"][si]["seal"] += 8 * 4096
                sites.append((ev["def"], "%d:%d" % (si, idx), None, "immediate"))
                return ws, sites
            pos = MU.inject_raw(random.Random(ev["seed"]), d, ev["name"])
            if pos is None:
                return ws, []
            klass = "immediate" if ev["name"] in MU.RAW and MU.RAW[ev["name"]][3] else "either" if ev["name"] in MU.RAW else "lazy" if ev["name"] in MU.LAZY else "final"
            sites.append((ev["def"], "%d:%d" % pos, None, klass))
            if ev.get("clone"):
                # history: a second file with byte-identical (faulty) text under another name, read later in the same process;
                # its error must carry its own path
                c = copy.deepcopy(d)
                c["name"] = d["name"] + "Clone"
                c["port"] = None
                ri = uni.root_of[ev["def"]]
                if not any(x["name"].lower() == c["name"].lower() for x in uni.defs.values()) and not any(r0 == ev["def"] or T.def_key(d) in T.def_refs(d) for r0 in [None]):
                    ws["roots"][ri]["defs"].append(c)
                    sites.append((T.def_key(c), "%d:%d" % pos, None, klass))
        else:
            for n, (k, seed) in enumerate(ev["at"]):
                if k not in uni.defs:
                    raise InvalidScenario("event site unknown")
                d = uni.defs[k]
                rr = random.Random(seed)
                si = rr.randrange(len(d["secs"]))
                items = d["secs"][si]["items"]
                idx = rr.randint(0, len(items))
                payload = "PAYLOAD_%d_%d" % (n, seed % 1000)
                if ev.get("same_text"):
                    payload, si, idx = "PAYLOAD_same_text", 0, 0
                    items = d["secs"][0]["items"]
                falsy = ev.get("falsy") if n == 0 else None
                if falsy is not None:
                    # a directive whose value is "nothing much" (no expression, zero, false, an empty string): still one delivery
                    payload = None
                    items.insert(idx, ["raw", ("@print " + falsy).rstrip(), []])
                else:
                    items.insert(idx, ["raw", "@print '%s'" % payload, []])
                # earlier sites of the same section move down
                sites = [(a, ("%d:%d" % (si, int(b.split(":")[1]) + 1)) if a == k and int(b.split(":")[0]) == si and int(b.split(":")[1]) >= idx else b, c, e) for a, b, c, e in sites]
                sites.append((k, "%d:%d" % (si, idx), payload, "print"))
        return ws, sites

    def apply_event(self, scn: dict):
        ws, sites = self._apply_event(scn)
        esc = scn.get("esc")
        if esc and sites:
            # a string literal with ESCAPED line breaks ('\\n', '\\u000A', '\\r') ahead of the event: an escape sequence is not a
            # line of the source text
            uni = Universe(ws)
            key = sites[0][0]
            if key in uni.defs:
                items = uni.defs[key]["secs"][0]["items"]
                line = ["@assert 'l1\\nl2\\u000Al3\\r' != ''", "@assert \"a\\nb\" == 'a\\nb'", "@assert {'x\\n\\n', 'y'}.count == 2"][esc % 3]
                items.insert(0, ["raw", line, []])
                fixed = []
                for a, b, c, e in sites:
                    si, _, idx = b.partition(":")
                    if a == key and si == "0" and idx.isdigit():
                        b = "0:%d" % (int(idx) + 1)
                    fixed.append((a, b, c, e))
                sites = fixed
        return ws, sites

    def execute(self, scn: dict) -> Outcome:
        from ..worlds.workspace import World, classify_exc, exc_info
        import pydsdl
        out = Outcome()
        W.validate_ws(scn["ws"])
        ws, sites = self.apply_event(scn)
        if not sites:
            raise InvalidScenario("event not applicable")
        uni = Universe(ws)
        rng = random.Random(scn["read_seed"])
        nroots = len(ws["roots"])
        reads = []
        for ri in range(nroots):
            reads.append(W.rn_op(rng, uni, ri, [x for x in range(nroots) if x != ri]))
        keys = list(uni.defs)
        for _ in range(rng.randint(2, 3)):
            targets = rng.sample(keys, rng.randint(1, min(3, len(keys))))
            troots = {uni.root_of[k] for k in targets}
            op = W.rf_op(rng, uni, targets, [x for x in range(nroots) if x not in troots])
            reads.append(op)
        rng.shuffle(reads)
        if len(sites) > 1 and sites[0][3] != "print":
            for key, _t, _p, _k in sites:
                reads.append(W.rf_op(rng, uni, [key], [x for x in range(nroots) if x != uni.root_of[key]]))
        w = World({"ws": ws, "fmt": scn.get("fmt", {}), "symlinks": W.symlinks_for(ws)})
        # probe: count evaluations per text
        evals: list[str] = []
        parser_mod = getattr(pydsdl, "_parser", None)
        orig_parse = getattr(parser_mod, "parse", None)
        dtb = getattr(pydsdl, "_dsdl_definition", None)
        probe_ok = callable(orig_parse) and dtb is not None and getattr(getattr(dtb, "_parser", None), "parse", None) is orig_parse
        if probe_ok:
            def counting_parse(text, *a, **kw):
                evals.append(text)
                return orig_parse(text, *a, **kw)
            parser_mod.parse = counting_parse
        try:
            text_to_key: dict[str, str | None] = {}
            for k, t in w.texts.items():
                tt = t.replace("\r\n", "\n").replace("\r", "\n")
                text_to_key[tt] = None if tt in text_to_key else k
            is_err = scn["event"]["k"] == "error"
            for i, op in enumerate(reads):
                targets, vis = W.op_targets(uni, op)
                closure = uni.closure(targets, vis)
                evals.clear()
                res = w.run_read(op)
                out.stats["reads"] += 1
                status = "ok" if res["ok"] else classify_exc(res["exc"])
                out.obs.append([i, status])
                if is_err:
                    in_closure = [st for st in sites if st[0] in closure]
                    if len(in_closure) > 1:
                        # both the original and its clone are reachable: either error is legitimate; checked on the reads
                        # that reach exactly one of them
                        continue
                    key, tag, _p, klass = in_closure[0] if in_closure else sites[0]
                    if key not in closure:
                        if not res["ok"]:
                            out.fail("C17.err-path", "read %d: the faulty definition %s is outside the closure but the call raised %s" % (i, key, type(res["exc"]).__name__), "outside-closure")
                        continue
                    out.stats["event_reached"] += 1
                    if res["ok"]:
                        out.fail("C17.err-path", "read %d: faulty statement (%s) in %s not reported" % (i, scn["event"]["name"], key), "not-reported:" + scn["event"]["name"])
                        continue
                    ei = exc_info(res["exc"])
                    if ei["cat"] != "IDE":
                        out.fail("C17.err-path", "read %d: %s reported as %s" % (i, scn["event"]["name"], ei["cls"]), "class:%s:%s" % (scn["event"]["name"], ei["cls"]))
                        continue
                    want_file = uni.file_of(key)
                    how = "target" if key in targets else "dependency"
                    got_file = w.rel(ei["path"]) if ei.get("path") else None
                    if got_file != want_file:
                        out.fail("C17.err-path", "read %d: %s (%s, %s) in %s reported with path %s" % (i, scn["event"]["name"], klass, how, want_file, got_file),
                                 "path:%s:%s" % (klass, how))
                        continue
                    want_line = w.lmaps[key].get(tag)
                    nlines = w.texts[key].replace("\r\n", "\n").replace("\r", "\n").count("\n") + 1
                    line = ei.get("line")
                    follows = self._follows(w.texts[key], want_line)
                    out.shapes.append(digest(["error", scn["event"]["name"], how, follows, min(self._depth(uni, targets, key), 3)]))
                    if want_line and want_line != 1 and (how == "dependency" or follows != "end"):
                        out.nontrivial = True
                    if klass in ("immediate", "lazy"):
                        if line != want_line:
                            out.fail("C17.err-line", "read %d: %s (%s) on line %s of %s reported at line %s (reached as %s; followed by %s)" % (
                                i, scn["event"]["name"], klass, want_line, want_file, line, how, follows), "line:%s:%s" % (klass, "none" if line is None else "wrong"))
                    elif klass == "seal-line":
                        if line is not None and line != want_line:
                            out.fail("C17.err-line", "read %d: invalid extent declared on line %s of %s reported at line %s (reached as %s)" % (i, want_line, want_file, line, how), "line:extent:wrong")
                    elif klass == "either":
                        seal_line = w.lmaps[key].get(tag.split(":")[0] + ":seal")
                        if line not in (want_line, seal_line):
                            out.fail("C17.err-line", "read %d: %s reported at line %s, statement at %s / %s" % (i, scn["event"]["name"], line, want_line, seal_line), "line:either")
                    else:
                        if line is not None and not (1 <= line <= nlines):
                            out.fail("C17.err-line", "read %d: finalisation error of %s (%d lines) reported at line %s (reached as %s)" % (i, want_file, nlines, line, how),
                                     "line:final:outside")
                        elif line is not None and line != want_line:
                            # a line inside the file that is not the statement's: only the path is asserted for this class,
                            # but a line that belongs to *another file's* statement (the referrer's) is wrong
                            if how == "dependency":
                                out.fail("C17.err-line", "read %d: finalisation error of dependency %s reported at line %s, which is not the statement's line %s" % (i, want_file, line, want_line),
                                         "line:final:foreign")
                    continue
                # prints
                if not res["ok"]:
                    out.fail("C17.print-count", "read %d: valid workspace with @print rejected: %s: %s" % (i, type(res["exc"]).__name__, str(res["exc"])[:200]), "rejected:" + type(res["exc"]).__name__)
                    continue
                ev_count: dict[str, int] = {}
                for t in evals:
                    k2 = text_to_key.get(t.replace("\r\n", "\n").replace("\r", "\n"))
                    if k2:
                        ev_count[k2] = ev_count.get(k2, 0) + 1
                for key, tag, payload, _kl in sites:
                    got = [(pp, ln, tx) for (pp, ln, tx) in res["prints"] if (payload in tx if payload is not None else "PAYLOAD" not in tx)]
                    if scn["event"].get("same_text"):
                        got = [g for g in got if w.rel(g[0]) == uni.file_of(key)]  # (nothing refers to these files: the path is theirs)
                    want_file = uni.file_of(key)
                    want_line = w.lmaps[key].get(tag)
                    how = "target" if key in targets else "dependency" if key in closure else "outside"
                    if how == "outside":
                        if got:
                            out.fail("C17.print-count", "read %d: @print of a definition outside the closure was delivered" % i, "outside-delivered")
                        continue
                    out.stats["event_reached"] += 1
                    out.shapes.append(digest(["print", how, self._follows(w.texts[key], want_line), min(self._depth(uni, targets, key), 3), len(got)]))
                    if want_line != 1 and how == "dependency":
                        out.nontrivial = True
                    if probe_ok and text_to_key.get(w.texts[key].replace("\r\n", "\n").replace("\r", "\n")) == key:
                        n_eval = ev_count.get(key, 0)
                        if len(got) != n_eval:
                            out.fail("C17.print-count", "read %d: directive in %s evaluated %d time(s) but delivered %d time(s)" % (i, want_file, n_eval, len(got)),
                                     "count:%s" % ("lost" if len(got) < n_eval else "duplicated"))
                        if n_eval > 1:
                            out.stats["double_evaluation"] += 1
                    elif not got:
                        out.fail("C17.print-count", "read %d: directive in %s (%s) never delivered" % (i, want_file, how), "count:lost")
                    for (pp, ln, tx) in got:
                        if w.rel(pp) != want_file:
                            by_file = {uni.file_of(k3): k3 for k3 in closure}
                            other = by_file.get(w.rel(pp))
                            if other is None:
                                rel = "foreign"
                            elif key in uni.closure([other]):
                                rel = "referrer"  # the reported file (transitively) references the directive's file
                            elif other in uni.closure([key]):
                                rel = "dependency"  # the reported file is something the directive's file references
                            else:
                                rel = "unrelated"
                            out.fail("C17.print-path", "read %d: @print on line %s of %s (%s) delivered with path %s (%s of it)" % (i, want_line, want_file, how, w.rel(pp), rel),
                                     "print-path:%s:%s" % (how, rel))
                        if ln != want_line:
                            out.fail("C17.print-line", "read %d: @print on line %s of %s delivered with line %s" % (i, want_line, want_file, ln), "print-line:" + how)
            # history: the file that holds the event is edited in place (k empty lines are inserted at its top, as an editor or a
            # merge would) and read again in the same process - under the scenario's mtime policy the new content may carry the
            # old, or an older, modification time. Locations are those of the text as it is now.
            key0, tag0, payload0, klass0 = sites[0]
            if len(sites) == 1 and klass0 in ("immediate", "lazy", "print"):
                fm0 = (scn.get("fmt") or {}).get(key0) or {}
                eol = "\r\n" if fm0.get("crlf") else "\r" if fm0.get("cr") else "\n"
                kshift = 1 + scn["read_seed"] % 3
                w.write(uni.file_of(key0), eol * kshift + w.texts[key0])
                ri0 = uni.root_of[key0]
                res = w.run_read({"op": "rn", "root": {"p": uni.roots[ri0]["dir"]}, "lookups": [{"p": uni.roots[x]["dir"]} for x in range(nroots) if x != ri0], "key": None, "cwd": ""})
                out.stats["edited_in_place_reads:" + w.mtime_policy] += 1
                want_line = w.lmaps[key0].get(tag0)
                if want_line:
                    if klass0 == "print":
                        got = [(pp, ln, tx) for (pp, ln, tx) in res["prints"] if (payload0 in tx if payload0 is not None else "PAYLOAD" not in tx) and w.rel(pp) == uni.file_of(key0)]
                        if res["ok"] and got and any(ln != want_line + kshift for _pp, ln, _tx in got):
                            out.fail("C17.print-line", "after %d empty lines were inserted at the top of %s (mtime policy %s) its @print, now on line %d, is delivered with line %s" % (
                                kshift, uni.file_of(key0), w.mtime_policy, want_line + kshift, sorted({ln for _pp, ln, _tx in got})), "print-line:stale-text")
                    elif not res["ok"]:
                        ei = exc_info(res["exc"])
                        if ei.get("cat") == "IDE" and ei.get("path") and w.rel(ei["path"]) == uni.file_of(key0) and ei.get("line") not in (None, want_line + kshift):
                            out.fail("C17.err-line", "after %d empty lines were inserted at the top of %s (mtime policy %s) the faulty statement, now on line %d, is reported at line %s" % (
                                kshift, uni.file_of(key0), w.mtime_policy, want_line + kshift, ei.get("line")), "line:stale-text")
            if probe_ok:
                out.stats["probe_parse_available"] += 1
            out.stats["event:" + scn["event"]["k"]] += 1
            if is_err:
                out.stats["inj:" + sites[0][3]] += 1
        finally:
            if probe_ok:
                parser_mod.parse = orig_parse
            w.close()
        return out

    def _follows(self, text: str, line: int | None) -> str:
        if not line:
            return "?"
        lines = text.replace("\r\n", "\n").replace("\r", "\n").split("\n")
        rest = lines[line:]
        if not rest or all(x == "" for x in rest):
            return "end"
        nxt = rest[0].strip()
        return "blank" if not nxt else "comment" if nxt.startswith("#") else "statement"

    def _depth(self, uni: Universe, targets, key) -> int:
        if key in targets:
            return 0
        frontier = set(targets)
        seen = set(frontier)
        for depth in range(1, 8):
            nxt = set()
            for k in frontier:
                if k in uni.defs:
                    nxt.update(T.def_refs(uni.defs[k]))
            if key in nxt:
                return depth
            frontier = nxt - seen
            seen |= nxt
        return 9


CHECK = C17()
