"""C15 - a type's name, version and port-ID are exactly those encoded in its file path (World W)."""
from __future__ import annotations
import random
from ..core.scenario import digest
from ..model import types as T
from ..model import gen as G
from ..model.namespace import Universe
from .base import Check, Outcome, InvalidScenario
from . import wcommon as W

SHORT = ["Msg", "A", "z9", "_x", "Node_1", "HTTPThing", "lower", "Up_Down", "X1", "Get", "Zz", "abcDEF"]
NSC = ["sub", "Deep", "n1", "_p", "UP", "aux_", "x", "LongerNamespaceComponent", "a_b"]
ROOTS = ["alpha", "Beta", "g1", "vendor_x", "Z", "regulated"]
MALFORMED = ["Foo.dsdl", "Foo.1.dsdl", "Foo.1.0.0.0.dsdl", "1.2.Foo.1.0.dsdl", "Foo.x.0.dsdl", "Foo.1.y.dsdl", "abc.Foo.1.0.dsdl",
             ".1.0.dsdl", "Foo..0.dsdl", "Foo.1..dsdl", "Foo.1.0.x.uavcan", "nodots.uavcan", "x.Foo.1.0.uavcan", "Foo.1.0.0.uavcan",
             "12.Foo.1.dsdl", "Foo.1,0.dsdl", "Foo.one.zero.dsdl",
             # numeric components that merely start (or end) with digits
             "Foo.1.0rc1.dsdl", "Foo.1x.0.dsdl", "Foo.1.0-draft.dsdl", "7509abc.Foo.1.0.dsdl", "Foo.x1.0.dsdl", "Foo.1.v0.dsdl", "p7509.Foo.1.0.dsdl",
             "Foo.1.0b.uavcan", "75a09.Foo.1.0.dsdl", "Foo.1e0.0.dsdl", "Foo.0x1.0.dsdl", "Foo.1.0~.dsdl",
             # hidden entries (editor lock files, AppleDouble files): still files named *.dsdl / *.uavcan under the root
             ".Status.1.0.dsdl", "._Status.1.0.dsdl", ".7000.Pin.1.0.dsdl", ".Status.1.0.uavcan", ".#Status.1.0.dsdl",
             # numeric fields that are numbers, but not ones a port-ID / version can be (signed, out of range, version 0.0)
             "-5.Foo.1.0.dsdl", "-1.Foo.0.1.dsdl", "Foo.-1.0.dsdl", "Foo.1.-1.dsdl", "8192.Foo.1.0.dsdl", "Foo.256.0.dsdl", "Foo.1.256.dsdl", "Foo.0.0.dsdl",
             "-8191.Foo.1.0.uavcan", "65536.Foo.1.0.dsdl"]
# shaped like [<port-id>.]<ShortName>.<major>.<minor> with an EMPTY short name or a number that no port-ID / version can be: rejected
# (invalid name / port-ID / version) when the definition is read, that is in the target role; a directory that is only searched for dependencies never reads it, so nothing is demanded there
LATE_REJECTED = {".1.0.dsdl", "-5.Foo.1.0.dsdl", "-1.Foo.0.1.dsdl", "Foo.-1.0.dsdl", "Foo.1.-1.dsdl", "8192.Foo.1.0.dsdl", "Foo.256.0.dsdl", "Foo.1.256.dsdl", "Foo.0.0.dsdl",
                 "-8191.Foo.1.0.uavcan", "65536.Foo.1.0.dsdl"}
BAD_DIRS = ["a.b", "x.1", "dot.ted", ".drafts", ".git", ".hidden_ns"]

# designations of (targets, roots) for read_files; "supported" ones must succeed, "open" ones are checked for soundness only
DESIGNATIONS = [
    ("abs+name", True), ("abs+abs", True), ("abs+dd", True), ("abs+ln", True), ("ln+abs", True), ("ln+name", True),
    ("nsrel+abs", True), ("nsrel+cwdrel", True), ("nsrel+none", True), ("nsrel+ln", True), ("dd+abs", True),
    ("abs+cwdrel_multi", False), ("cwdrel+cwdrel", False), ("cwdrel+abs", False),
]


class C15(Check):
    PROP = "C15"
    CRASH_ORACLE = "C15.identity"
    RULE = ("each run = 1-2 roots with 1-6 definition files at directory depths 0-4 (mixed-case names, boundary versions, "
            "present/absent port-IDs, .dsdl/.uavcan), read via read_namespace (root absolute / cwd-relative / x/../x / symlink "
            "alias) and via read_files under every designation of targets and roots: absolute, bare root name, '..' spelling, "
            "alias, namespace-relative target with absolute / cwd-relative / no root, list order and duplication of roots, a "
            "decoy directory elsewhere whose last component equals the root name, varying cwd; one run in three adds one "
            "malformed file or directory name to the scanned root. distinct = hash of (max depth, sorted designations used, "
            "malformed kind, decoy present); non-trivial = depth >= 1 and a non-absolute designation or an alias was used, or a "
            "malformed name was present")
    RULE = RULE + "; " + "rounds 7-8: an ancestor directory with the root's name in another letter case; malformed names in the lookup role; signed / out-of-range numeric fields"
    TIERS = {"quick": {"runs": 1600, "budget_s": 50}, "thorough": {"runs": 80000, "budget_s": 900}}
    ASSUMPTIONS = ["a file name with an empty short name (.1.0.dsdl) or with an out-of-range / signed number is demanded to be rejected only where the definition is read (target role)",
                   "numeric components that only Python's int() accepts (+1, 1_0, leading zeros, non-ASCII digits) are not generated",
                   "a bare root name with a RELATIVE target is only used when no ancestor directory has the same name and no other directory of that name exists under cwd (otherwise the designation is ambiguous); with an absolute target the working directory may hold an unrelated entry of that name"]

    def generate(self, rng: random.Random, r: int, tier: str) -> dict:
        nroots = rng.randint(1, 2)
        rnames = rng.sample(ROOTS, nroots)
        roots = []
        used = set()
        ports = set()
        for i, rn in enumerate(rnames):
            defs = []
            for _ in range(rng.randint(1, 4)):
                depth = rng.choice([0, 1, 1, 2, 3, 4])
                # a nested namespace may legally carry the root namespace's own name (vendor/sub/vendor/X.1.0.dsdl)
                comps = [rn] + [(rn if rng.random() < 0.15 else rng.choice(NSC)) for _ in range(depth)]
                short = rng.choice(SHORT)
                name = ".".join(comps + [short])
                ver = rng.choice([[1, 0], [0, 1], [255, 255], [0, 255], [255, 0], [rng.randint(0, 255), rng.randint(1, 255)]])
                key = (name.lower(), tuple(ver))
                # namespace vs type name clashes and case clashes are other properties' business
                if key in used or any(u[0] == name.lower() or u[0].startswith(name.lower() + ".") or name.lower().startswith(u[0] + ".") for u in used):
                    continue
                lowcomps = [c.lower() for c in comps]
                if any(x for x in used if x[0].split(".")[: len(lowcomps)] != lowcomps[: len(x[0].split("."))] and False):
                    continue
                used.add(key)
                service = rng.random() < 0.3
                port = None
                if rng.random() < 0.5:
                    port = rng.choice([0, 511, rng.randint(0, 511)]) if service else rng.choice([0, 8191, rng.randint(0, 8191)])
                    if (service, port) in ports:
                        port = None
                    else:
                        ports.add((service, port))
                sec = {"union": False, "seal": "sealed", "hdr": None, "items": [["f", ["u", 8, "s"], "v"]] if rng.random() < 0.5 else []}
                defs.append({"name": name, "ver": ver, "port": port, "ext": rng.choice(["dsdl", "dsdl", "uavcan"]), "dep": False,
                             "secs": [dict(sec), dict(sec)] if service else [sec]})
            if not defs:
                defs.append({"name": rn + ".Only", "ver": [1, 0], "port": None, "ext": "dsdl", "dep": False,
                             "secs": [{"union": False, "seal": "sealed", "hdr": None, "items": []}]})
            rdir = "w/d%d/%s" % (i, rn)
            if rng.random() < 0.15:
                # a directory ABOVE the root namespace directory carries the root's name in another letter case (a checkout folder)
                variant = rng.choice([v for v in (rn.upper(), rn.swapcase(), rn.capitalize(), rn.lower()) if v != rn])
                rdir = "w/d%d/%s/%s/%s" % (i, variant, rng.choice(["checkout", "types", variant]), rn)
            roots.append({"dir": rdir, "name": rn, "defs": defs})
        ws = {"roots": roots}
        # case-insensitive directory clashes would make two namespaces differ only by case: regenerate names apart
        uni = Universe(ws)
        scn: dict = {"ws": ws, "symlinks": W.symlinks_for(ws), "extra_files": [], "extra_dirs": [], "reads": [], "malformed": None}
        if rng.random() < 0.35:
            # decoy: an unrelated directory elsewhere with the root's name (must not contain the same relative files)
            scn["extra_files"].append(["w/decoy/%s/unrelated/Other.1.0.dsdl" % rnames[0], "@sealed\n"])
            scn["decoy"] = "w/decoy/%s" % rnames[0]
        if rng.random() < 0.33:
            ri = rng.randrange(nroots)
            dirs = sorted({uni.file_of(k).rsplit("/", 1)[0] for k in uni.keys_of_root(ri)} | {roots[ri]["dir"]})
            if rng.random() < 0.8:
                scn["malformed"] = {"root": ri, "path": rng.choice(dirs) + "/" + rng.choice(MALFORMED), "kind": "file"}
            else:
                scn["malformed"] = {"root": ri, "path": rng.choice(dirs) + "/" + rng.choice(BAD_DIRS) + "/Inner.1.0.dsdl", "kind": "dir"}
        keys = list(uni.defs)
        for _ in range(rng.randint(3, 6)):
            if rng.random() < 0.3:
                ri = rng.randrange(nroots)
                lk = []
                if nroots == 2 and rng.random() < 0.4:
                    # the other root is passed in the lookup role only
                    lk = [W.dir_arg(rng, uni, 1 - ri)]
                scn["reads"].append({"op": "rn", "root": W.dir_arg(rng, uni, ri), "lookups": lk, "key": rng.randrange(1 << 30),
                                     "cwd": rng.choice(["", "w", roots[ri]["dir"], roots[ri]["dir"].rsplit("/", 1)[0]]), "allow_unreg": True})
                continue
            des, _sup = rng.choice(DESIGNATIONS)
            tstyle, rstyle = des.split("+")
            nt = rng.randint(1, min(3, len(keys)))
            targets = rng.sample(keys, nt)
            if tstyle in ("nsrel",) and rstyle in ("none",):
                # cwd must be the common parent of the roots: single root only
                ri0 = uni.root_of[targets[0]]
                targets = [k for k in targets if uni.root_of[k] == ri0]
            troots = sorted({uni.root_of[k] for k in targets})
            parent = roots[troots[0]]["dir"].rsplit("/", 1)[0]
            if tstyle == "cwdrel" or rstyle in ("cwdrel", "cwdrel_multi"):
                cwd = rng.choice(["", "w"])
            elif rstyle == "none":
                cwd = parent
            else:
                cwd = rng.choice(["", "w", parent, roots[troots[0]]["dir"]])
            if rstyle == "name" and tstyle in ("abs", "ln", "dd") and scn.get("decoy") and nroots == 1 and rng.random() < 0.5:
                # absolute target + bare root name, called from a working directory that happens to hold an unrelated entry of
                # that name (another checkout, a build folder): the name still designates the namespace the target lies in
                cwd = "w/decoy"
            elif rstyle == "name":
                # a bare root name is also a cwd-relative path: keep it unambiguous (no directory of that name under cwd
                # other than the root itself)
                for ri in troots:
                    rn0 = roots[ri]["name"]
                    if any(rn0 in d["name"].split(".")[1:-1] for d in roots[ri]["defs"]) and cwd == roots[ri]["dir"]:
                        cwd = parent
            files = []
            for k in targets:
                ri = uni.root_of[k]
                p = uni.file_of(k)
                st = {"abs": "abs", "ln": "ln%d" % ri, "dd": "dd", "cwdrel": "cwd", "nsrel": "nsrel"}[tstyle]
                files.append({"p": p, "st": st, "ty": rng.choice("sp"), "ri": ri})
            rargs = []
            for ri in troots:
                st = {"name": "name", "abs": "abs", "dd": "dd", "ln": "ln%d" % ri, "cwdrel": "cwd", "cwdrel_multi": "cwd", "none": None}[rstyle]
                if st is not None:
                    rargs.append({"p": roots[ri]["dir"], "st": st, "ty": rng.choice("sp")})
            if scn.get("decoy") and rargs and rng.random() < 0.6:
                rargs.insert(rng.randint(0, len(rargs)), {"p": scn["decoy"], "st": "abs", "ty": "p"})
            if len(rargs) > 1 and rng.random() < 0.5:
                rng.shuffle(rargs)
            if rargs and rng.random() < 0.25:
                rargs.append(dict(rargs[0]))
            scn["reads"].append({"op": "rf", "files": files, "roots": rargs, "lookups": [], "key": rng.randrange(1 << 30), "cwd": cwd,
                                 "allow_unreg": True, "des": des})
        if rng.random() < 0.25 and not scn.get("malformed") and not scn.get("decoy"):
            # the same root namespace is also contributed from a second directory that is passed as a LOOKUP directory and holds a
            # (valid, unreferenced) definition with the name and version of one of the definitions that are read - another
            # file, another port-ID: every returned type still is the one encoded by the path of ITS file under ITS root
            k = rng.choice(keys)
            d0 = uni.defs[k]
            comps = d0["name"].split(".")
            twin_dir = "w/tw/" + comps[0]
            service = len(d0["secs"]) == 2
            tport = rng.choice([p0 for p0 in ([1, 2, 3, 200, 510] if service else [1, 2, 3, 6000, 8190]) if p0 != d0.get("port")])
            rel = "/".join([twin_dir] + comps[1:-1] + ["%d.%s.%d.%d.dsdl" % (tport, comps[-1], d0["ver"][0], d0["ver"][1])])
            scn["extra_files"].append([rel, "uint16 twin_only_field\n@sealed\n" + ("---\n@sealed\n" if service else "")])
            scn["twin_lookup"] = twin_dir
            for op in scn["reads"]:
                if op["op"] == "rn" and op["root"]["p"] == roots[uni.root_of[k]]["dir"] or op["op"] == "rf":
                    op["lookups"] = list(op.get("lookups") or []) + [{"p": twin_dir, "st": rng.choice(["abs", "dd"]), "ty": rng.choice("sp")}]
        return scn

    def execute(self, scn: dict) -> Outcome:
        from ..worlds.workspace import World, classify_exc, exc_info
        import os
        out = Outcome()
        uni0 = Universe(scn["ws"])
        from ..model import rules
        bad = rules.workspace_problems(uni0, allow_unregulated=True)
        if bad:
            raise InvalidScenario("; ".join(bad[:3]))
        sup = dict(DESIGNATIONS)
        w = World(scn)
        try:
            uni = w.uni
            mal = scn.get("malformed")
            if mal:
                if not any(mal["path"].startswith(r["dir"] + "/") for r in uni.roots):
                    raise InvalidScenario("malformed entry outside the roots")
                w.write(mal["path"], "@sealed\n")
            file_to_key = {uni.file_of(k): k for k in uni.defs}
            maxdepth = max(len(d["name"].split(".")) - 2 for d in uni.defs.values())
            used = set()
            nonabs = False
            for i, op in enumerate(scn["reads"]):
                if op["op"] == "rf":
                    op = dict(op)
                    files = []
                    for a in op["files"]:
                        a = dict(a)
                        if a["st"] == "nsrel":
                            rootdir = uni.roots[a["ri"]]["dir"]
                            a = {"p": a["p"][len(rootdir.rsplit("/", 1)[0]) + 1:], "st": "raw", "ty": a.get("ty", "p")}
                        files.append(a)
                    op["files"] = files
                    used.add(op.get("des"))
                    if not op.get("des", "abs+abs").startswith("abs+abs"):
                        nonabs = True
                else:
                    used.add("rn:" + op["root"].get("st", "abs")[:2])
                    if op["root"].get("st", "abs") != "abs":
                        nonabs = True
                res = w.run_read(op)
                out.stats["reads"] += 1
                out.obs.append([i, "ok" if res["ok"] else classify_exc(res["exc"])])
                if op["op"] == "rn":
                    ri = [j for j, r in enumerate(uni.roots) if r["dir"] == op["root"]["p"]][0]
                    want = uni.keys_of_root(ri)
                    lk_roots = [j for j, r in enumerate(uni.roots) for a in op.get("lookups") or [] if r["dir"] == a["p"]]
                    in_scanned = mal is not None and (mal["root"] == ri or mal["root"] in lk_roots)
                    if in_scanned and mal["root"] != ri:
                        if mal["path"].rsplit("/", 1)[-1] in LATE_REJECTED:
                            in_scanned = False
                        else:
                            out.stats["malformed_in_lookup_role_only"] += 1
                    if in_scanned:
                        out.stats["malformed_reached"] += 1
                        if res["ok"] or classify_exc(res["exc"]) != "IDE":
                            out.fail("C15.malformed", "read %d: %s is in the scanned root but the call %s" % (i, mal["path"], "returned" if res["ok"] else "raised " + type(res["exc"]).__name__),
                                     "malformed:" + mal["path"].rsplit("/", 1)[-1] if mal["kind"] == "file" else "malformed-dir")
                        continue
                    if not res["ok"]:
                        out.fail("C15.supported", "read %d: read_namespace rejected a well-formed root: %s: %s" % (i, type(res["exc"]).__name__, res["exc"]), "rn-rejected:" + type(res["exc"]).__name__)
                        continue
                    self._check_types(out, w, uni, res["direct"], want, i, exact=True)
                else:
                    targets = []
                    for a in scn["reads"][i]["files"]:
                        k = file_to_key[a["p"]]
                        if k not in targets:
                            targets.append(k)
                    des = op.get("des")
                    if mal is not None and sup.get(des, False) and mal["root"] in {uni.root_of[k] for k in targets} and mal["path"].rsplit("/", 1)[-1] not in LATE_REJECTED:
                        # the root namespace directory of every target is listed: a malformed name under it is rejected by read_files too
                        out.stats["malformed_reached_by_read_files"] += 1
                        if res["ok"] or classify_exc(res["exc"]) != "IDE":
                            out.fail("C15.malformed", "read %d (%s): %s is under the root of a target but read_files %s" % (i, des, mal["path"], "returned" if res["ok"] else "raised " + type(res["exc"]).__name__),
                                     "rf-malformed:" + mal["path"].rsplit("/", 1)[-1] if mal["kind"] == "file" else "rf-malformed-dir")
                        continue
                    if not res["ok"]:
                        if mal is not None and classify_exc(res["exc"]) == "IDE":
                            # read_files lists the targets' roots as lookup directories: a malformed name there may be reported
                            out.stats["malformed_reported_by_read_files"] += 1
                            continue
                        if sup.get(des, False):
                            out.fail("C15.supported", "read %d: designation %s (cwd=%r) rejected: %s: %s" % (i, des, op.get("cwd"), type(res["exc"]).__name__, str(res["exc"])[:300]),
                                     "rejected:%s:%s" % (des, type(res["exc"]).__name__))
                        elif classify_exc(res["exc"]) not in ("IDE",) and not isinstance(res["exc"], (OSError, ValueError)):
                            out.fail("C15.supported", "read %d: designation %s raised %s" % (i, des, type(res["exc"]).__name__), "open-crash:%s" % type(res["exc"]).__name__)
                        else:
                            out.stats["open_designation_rejected"] += 1
                        continue
                    self._check_types(out, w, uni, res["direct"], uni.sorted_keys(targets), i, exact=True, des=des)
            out.nontrivial = (maxdepth >= 1 and nonabs) or mal is not None
            tst = sorted({x.split("+")[0] for x in used if x and "+" in x})
            rst = sorted({x.split("+")[1] for x in used if x and "+" in x})
            out.shape = digest([maxdepth, tst, rst, mal["path"].rsplit("/", 1)[-1] if mal else None, bool(scn.get("decoy"))])
            for u in used:
                if u:
                    out.stats["designation:" + u] += 1
        finally:
            w.close()
        return out

    def _check_types(self, out, w, uni, types, want_keys, i, exact, des=None) -> None:
        got = [str(t) for t in types]
        if got != want_keys:
            out.fail("C15.identity", "read %d (%s): identities %s, model (decoded from the paths) %s" % (i, des or "read_namespace", got, want_keys),
                     "identity:" + (des or "rn"))
            return
        import os
        for t in types:
            k = str(t)
            d = uni.defs[k]
            if t.fixed_port_id != d.get("port") or [t.version.major, t.version.minor] != d["ver"] or t.full_name != d["name"]:
                out.fail("C15.identity", "read %d: %s has name/version/port %s/%s/%s, path encodes %s/%s/%s" % (
                    i, k, t.full_name, tuple(t.version), t.fixed_port_id, d["name"], d["ver"], d.get("port")), "identity:" + (des or "rn"))
            want_file = w.abs(uni.file_of(k))
            want_root = w.abs(uni.roots[uni.root_of[k]]["dir"])
            try:
                ok_file = os.path.samefile(str(t.source_file_path), want_file)
                ok_root = os.path.samefile(str(t.source_file_path_to_root), want_root)
            except OSError:
                ok_file = ok_root = False
            if not ok_file or not ok_root:
                out.fail("C15.source", "read %d: %s source_file_path=%s root=%s, model %s / %s" % (
                    i, k, w.rel(t.source_file_path), w.rel(t.source_file_path_to_root), uni.file_of(k), uni.roots[uni.root_of[k]]["dir"]), "source:" + (des or "rn"))
            parts = [t.request_type, t.response_type] if hasattr(t, "request_type") else []
            for p in parts:
                if not os.path.samefile(str(p.source_file_path), want_file):
                    out.fail("C15.source", "read %d: %s request/response source path" % (i, k), "source-svc")
            out.stats["types_checked"] += 1


CHECK = C15()
