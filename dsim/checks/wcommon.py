"""Helpers shared by the World-W checks: argument builders and validation."""
from __future__ import annotations
import random
from ..model import rules
from ..model.namespace import Universe
from .base import InvalidScenario


def validate_ws(ws: dict, allow_unregulated: bool = False) -> Universe:
    uni = Universe(ws)
    bad = rules.workspace_problems(uni, allow_unregulated)
    if bad:
        raise InvalidScenario("; ".join(bad[:3]))
    return uni


def dir_arg(rng: random.Random, uni: Universe, ri: int, styles=("abs", "abs", "dd", "dot", "cwd", "ln")) -> dict:
    st = rng.choice(styles)
    if st == "ln":
        st = "ln%d" % ri
    return {"p": uni.roots[ri]["dir"], "st": st, "ty": rng.choice("sp")}


def symlinks_for(ws: dict) -> list:
    return [["l%d" % i, "w/d%d" % i] for i in range(len(ws["roots"]))]


HANDLER_KINDS = ["function", "partial", "falsy_list", "falsy_obj", "falsy_list", "varargs_fn", "varargs_method", "varargs_partial"]
UNORDERED_KINDS = ["list", "list", "list", "tuple", "set", "frozenset", "gen", "iter", "keys", "deque"]
ORDERED_KINDS = ["list", "list", "list", "tuple", "gen", "iter", "keys", "deque"]


def rn_op(rng: random.Random, uni: Universe, ri: int, look: list[int], **kw) -> dict:
    nroots = len(uni.roots)
    lk = [dir_arg(rng, uni, x) for x in look]
    rng.shuffle(lk)
    op = {"op": "rn", "root": dir_arg(rng, uni, ri), "lookups": lk, "key": rng.randrange(1 << 30),
          "cwd": rng.choice(["", "w", uni.roots[rng.randrange(nroots)]["dir"]])}
    if rng.random() < 0.3:
        op["lk_kind"] = rng.choice(UNORDERED_KINDS)
    if rng.random() < 0.35:
        op["handler_kind"] = rng.choice(HANDLER_KINDS)
    op.update(kw)
    return op


def rf_op(rng: random.Random, uni: Universe, targets: list[str], look: list[int], **kw) -> dict:
    troots = sorted({uni.root_of[k] for k in targets})
    files = []
    for k in targets:
        ri = uni.root_of[k]
        files.append({"p": uni.file_of(k), "st": rng.choice(["abs", "abs", "dd", "ln%d" % ri]), "ty": rng.choice("sp")})
    roots = []
    for ri in troots:
        if rng.random() < 0.6:
            roots.append({"p": uni.roots[ri]["dir"], "st": rng.choice(["abs", "dd", "dot", "ln%d" % ri]), "ty": rng.choice("sp")})
        else:
            roots.append({"p": uni.roots[ri]["dir"], "st": "name", "ty": rng.choice("sp")})
    lk = [{"p": uni.roots[ri]["dir"], "st": rng.choice(["abs", "dd", "cwd", "ln%d" % ri]), "ty": rng.choice("sp")} for ri in look]
    rng.shuffle(files)
    rng.shuffle(lk)
    op = {"op": "rf", "files": files, "roots": roots, "lookups": lk, "key": rng.randrange(1 << 30), "cwd": rng.choice(["", "w"])}
    if rng.random() < 0.3:
        op["lk_kind"] = rng.choice(UNORDERED_KINDS)
    if rng.random() < 0.3:
        op["files_kind"] = rng.choice(UNORDERED_KINDS)
    if rng.random() < 0.3:
        op["roots_kind"] = rng.choice(ORDERED_KINDS)
    if rng.random() < 0.35:
        op["handler_kind"] = rng.choice(HANDLER_KINDS)
    op.update(kw)
    return op


def op_targets(uni: Universe, op: dict) -> tuple[list[str], set[int]]:
    """(target keys, visible root indexes) of a read op, recomputed from the op's logical paths."""
    dir_to_root = {r["dir"]: i for i, r in enumerate(uni.roots)}
    if op["op"] == "rn":
        ri = dir_to_root[op["root"]["p"]]
        lk = op.get("lookups")
        lk = [] if lk is None else [lk] if isinstance(lk, dict) else lk
        vis = {ri} | {dir_to_root[a["p"]] for a in lk if a["p"] in dir_to_root}
        return uni.keys_of_root(ri), vis
    file_to_key = {uni.file_of(k): k for k in uni.defs}
    targets = []
    for a in op["files"]:
        k = file_to_key.get(a["p"])
        if k is None:
            raise InvalidScenario("target %s is not a definition of the workspace" % a["p"])
        if k not in targets:
            targets.append(k)
    vis = {uni.root_of[k] for k in targets}
    for a in list(op.get("roots") or []) + list(op.get("lookups") or []):
        if a["p"] in dir_to_root:
            vis.add(dir_to_root[a["p"]])
    return targets, vis


def model_verdict(uni: Universe, targets: list[str], vis: set[int], allow_unregulated: bool = False) -> tuple[list[str], list[str]]:
    """(must-reject reasons, open reasons) for one read, from the abstract model only.

    must-reject: a reference without a visible definition, any static-rule problem of a definition in the closure, any
    cross-definition problem among direct+transitive. open (either verdict accepted): a direct definition's port-ID
    colliding with a transitive one's; attribute names differing only by case."""
    from ..model import types as T
    closure = uni.closure(targets, vis)
    reasons: list[str] = []
    opens: list[str] = []
    for a, b in uni.missing_refs(targets, vis):
        reasons.append("undefined:%s->%s" % (a, b))
    for k in sorted(closure):
        d = uni.defs[k]
        # unregulated port-IDs are only checked for what is actually read
        for p in rules.static_problems(uni.res, d, allow_unregulated):
            if p.startswith("undefined:"):
                continue
            reasons.append("%s:%s" % (k, p))
        for s in d["secs"]:
            names = [it[2].lower() for it in s["items"] if it[0] in ("f", "c")]
            exact = [it[2] for it in s["items"] if it[0] in ("f", "c")]
            if len(set(names)) != len(names) and len(set(exact)) == len(exact):
                opens.append("%s:attr-case" % k)
    direct = [k for k in targets if k in uni.defs]
    trans = sorted(closure - set(direct))
    if not reasons:
        reasons += rules.cross_problems(uni.res, direct, trans)
        td = [uni.defs[k] for k in trans]
        for a in direct:
            for b in td:
                if rules.port_collision(uni.defs[a], b):
                    opens.append("port-collision-with-transitive:%s/%s" % (a, T.def_key(b)))
    # cycles
    for k in sorted(closure):
        seen = set()
        todo = list(T.def_refs(uni.defs[k]))
        while todo:
            x = todo.pop()
            if x == k:
                reasons.append("%s:cycle" % k)
                break
            if x in seen or x not in uni.defs:
                continue
            seen.add(x)
            todo.extend(T.def_refs(uni.defs[x]))
    return reasons, opens
