"""C16 - layout analysis is symbolic: cost does not grow with capacities or extents (World W + virtual step clock)."""
from __future__ import annotations
import copy
import os
import random
import sys
from ..core.scenario import digest
from ..model import gen as G
from ..model import types as T
from ..model.namespace import Universe
from .base import Check, Outcome, InvalidScenario
from . import wcommon as W

EXPONENTS = [7, 8, 12, 16, 24, 32, 48, 62]


class BudgetExceeded(BaseException):
    pass


def instantiate(ws: dict, j: int, cap: int | None = None) -> dict:
    """Replace every parameterised capacity {"p": r} by 2**j + r (or by the explicit capacity `cap`) and re-derive the
    extents of delimited types."""
    ws = copy.deepcopy(ws)

    def fix(t):
        if t[0] in ("arr", "var"):
            if isinstance(t[2], dict):
                t[2] = cap if cap is not None else 2 ** j + t[2]["p"]
            fix(t[1])
    for r in ws["roots"]:
        for d in r["defs"]:
            for s in d["secs"]:
                for it in s["items"]:
                    if it[0] == "f":
                        fix(it[1])
    # extents: keep the slack (in bytes) recorded by the generator above the longest representation; definitions are
    # listed in dependency order, so nested delimited types get their concrete extent first
    alld = [d for r in ws["roots"] for d in r["defs"]]
    for d in alld:
        for si, s in enumerate(d["secs"]):
            if isinstance(s.get("seal"), dict):
                slack = s["seal"]["slack"]
                s["seal"] = "sealed"
                res = T.Resolver({T.def_key(x): x for x in alld})
                s["seal"] = T.Sec(res, d, si).inner_extent + 8 * slack
    return ws


def extents_of(ws: dict) -> dict:
    res = T.Resolver({T.def_key(d): d for r in ws["roots"] for d in r["defs"]})
    out = {}
    for k, d in res.defs.items():
        for si in range(len(d["secs"])):
            sec = res.sec(k, si)
            out[(k, si)] = (sec.inner_extent, sec.extent)
    return out


def affine_class(skel: dict, js: list[int]) -> bool:
    """True iff every extent of every section is one affine function a * 2**j + b of the capacity exponent over all the given
    exponents (i.e. the same member dominates every maximum): then all repetition counts are congruent modulo the queried
    divisors (8, 32) for j >= 8 and the solver does literally the same work."""
    pts = [(j, extents_of(instantiate(skel, j))) for j in js]
    keys = pts[0][1].keys()
    for key in keys:
        for idx in (0, 1):
            (j1, e1), (j2, e2) = (pts[0][0], pts[0][1][key][idx]), (pts[1][0], pts[1][1][key][idx])
            if e1 is None or e2 is None:
                continue
            num = e2 - e1
            den = 2 ** j2 - 2 ** j1
            if num % den:
                return False
            a = num // den
            b = e1 - a * 2 ** j1
            for j, ext in pts[2:]:
                if ext[key][idx] != a * 2 ** j + b:
                    return False
    return True


CLASS_POINTS = {16: [8, 10, 12], 32: [16, 20, 24], 64: [32, 48, 62]}


ODD = ["", " [2]", "", "{a,b}", "", "*"]


class C16(Check):
    PROP = "C16"
    CRASH_ORACLE = "C16.constant"
    HANG_ORACLE = "C16.budget"  # no progress while analysing a larger capacity: the cost grows with the capacity
    HANG_S = 45
    RULE = ("each run = one skeleton family: a generated namespace (nested up to 3 levels, sub-byte and byte-aligned elements mixed, "
            "arrays of variable-length composites, delimited types) in which 1-4 array capacities are parameters; the family is "
            "instantiated at capacities 2**j + r for j in {7, 8, 12, 16, 24, 32, 48, 62} (same r within a family, extents of "
            "delimited types follow). The real clock is replaced by a deterministic step counter: traced line events in "
            "pydsdl/_bit_length_set frames and in all other pydsdl frames (vendored parser excluded) while the namespace is read "
            "and min / max / extent / fixed_length / byte alignment of every type and field offset / hash / == are queried; "
            "time.monotonic is virtual and jumps forwards and backwards during the run. Oracles: identical step vector for all j; "
            "no numerical expansion of a non-leaf operator and no residue set larger than its divisor (probe on the operator "
            "classes; 'unavailable' if the names are gone); results unaffected by clock jumps; families that are expensive already at the smallest capacity are skipped (counted). distinct = hash of (type features of the parameterised definitions, r); non-trivial = "
            "the parameterised array has a variable-length or sub-byte element, or is nested in another array")
    TIERS = {"quick": {"runs": 96, "budget_s": 55}, "thorough": {"runs": 12000, "budget_s": 1200}}
    ASSUMPTIONS = ["capacities below 2*divisor are not compared (there the set itself legitimately grows)", "enumerate_elements_with_offsets and the in-language _offset_ are not queried (documented as linear / numerical)"]
    REAL_VS_STUB = ("real: all of pydsdl; simulated: the clock (step counter from sys.settrace line events + virtual time.monotonic with jumps), "
                    "capacity schedule; stubbed: nothing")

    def warmup(self) -> None:
        from ..worlds.workspace import World
        ws = {"roots": [{"dir": "w/d0/warm", "name": "warm", "defs": [{"name": "warm.A", "ver": [1, 0], "port": None, "ext": "dsdl", "dep": False,
              "secs": [{"union": False, "seal": "sealed", "hdr": None, "items": [["f", ["var", ["u", 3, "s"], 9], "a"], ["c", ["u", 8, "s"], "K", "1 + 2", [3, 1]]]}]}]}]}
        w = World({"ws": ws})
        try:
            w.run_read({"op": "rn", "root": {"p": "w/d0/warm"}, "lookups": [], "key": None, "cwd": ""})
        finally:
            w.close()

    def generate(self, rng: random.Random, r: int, tier: str) -> dict:
        for _ in range(20):
            ws = G.gen_workspace(rng, roots=(1, 1), defs=(2, 5), p_ref=0.6, p_service=0.1, p_family=0.0, p_const=0.1, p_doc=0.0, p_port=0.0, max_cap=3, max_fields=4)
            rr = rng.choice([0, 0, 1, 3, 5, 7, 31, 33])
            sites = []
            for d in ws["roots"][0]["defs"]:
                for s in d["secs"]:
                    for it in s["items"]:
                        if it[0] == "f":
                            t = it[1]
                            if t[0] in ("arr", "var"):
                                sites.append(t)
            if not sites:
                continue
            for t in rng.sample(sites, min(len(sites), rng.randint(1, 4))):
                t[2] = {"p": rr}
            root = ws["roots"][0]
            rn = root["name"]
            if rng.random() < 0.35 and not ({(rn + ".Empty").lower(), (rn + ".EmptyHost").lower()} & {d["name"].lower() for d in root["defs"]}):
                # zero-size elements: a sealed composite without fields (or with constants only) as the element of parameterised
                # arrays - every repetition of its length set stays {0}, which must cost nothing however large the capacity is
                root["defs"].append({"name": rn + ".Empty", "ver": [1, 0], "port": None, "ext": "dsdl", "dep": False,
                                     "secs": [{"union": False, "hdr": None, "items": ([["c", ["u", 8, "s"], "K", "1", [1, 1]]] if rng.random() < 0.5 else []), "seal": "sealed"}]})
                eref = ["ref", rn + ".Empty", 1, 0]
                items = [["f", ["var", eref, {"p": rr}], "ev"]]
                if rng.random() < 0.6:
                    items.append(["f", ["arr", eref, {"p": rr}], "ea"])
                if rng.random() < 0.5:
                    items.insert(0, ["f", ["u", rng.choice([3, 8]), "s"], "pre"])
                items.append(["f", ["u", 8, "s"], "tail"])
                root["defs"].append({"name": rn + ".EmptyHost", "ver": [1, 0], "port": None, "ext": "dsdl", "dep": False,
                                     "secs": [{"union": rng.random() < 0.3, "hdr": None, "items": items, "seal": rng.choice(["sealed", {"slack": 2}])}]})
            if rng.random() < 0.3 and not ({(rn + ".Slot").lower(), (rn + ".Rack").lower()} & {d["name"].lower() for d in root["defs"]}):
                # a short FIXED array (10-17 elements, not parameterised) whose element holds a parameterised variable-length array:
                # the k-fold repetition of a multi-residue element must stay cheap for every capacity of the inner array
                el = rng.choice([["u", 8, "s"], ["u", 16, "s"], ["u", 3, "t"], ["bool"]])
                root["defs"].append({"name": rn + ".Slot", "ver": [1, 0], "port": None, "ext": "dsdl", "dep": False,
                                     "secs": [{"union": False, "hdr": None, "items": [["f", ["var", el, {"p": rr}], "data"]], "seal": "sealed"}]})
                sref = ["ref", rn + ".Slot", 1, 0]
                ritems = [["f", ["arr", sref, rng.choice([10, 12, 13, 14, 16, 17])], "slots"], ["f", ["u", 8, "s"], "tail"]]
                if rng.random() < 0.4:
                    ritems.insert(0, ["f", ["var", sref, 2], "spare"])
                root["defs"].append({"name": rn + ".Rack", "ver": [1, 0], "port": None, "ext": "dsdl", "dep": False,
                                     "secs": [{"union": False, "hdr": None, "items": ritems, "seal": "sealed"}]})
            for d in ws["roots"][0]["defs"]:
                for s in d["secs"]:
                    if isinstance(s.get("seal"), int) and not isinstance(s.get("seal"), bool):
                        s["seal"] = {"slack": rng.choice([0, 1, 16])}
            # a second minor version (same major >= 1, same fields, one more constant) of a sealed message that holds a parameterised
            # array: the cross-version consistency rules are checked between them when the namespace is read
            cands = [d for d in root["defs"] if len(d["secs"]) == 1 and d["secs"][0]["seal"] == "sealed" and d["ver"][0] >= 1 and d.get("port") is None
                     and any(it[0] == "f" and it[1][0] in ("arr", "var") and isinstance(it[1][2], dict) for it in d["secs"][0]["items"])]
            if cands and rng.random() < 0.4:
                d0 = rng.choice(cands)
                nm = [d0["ver"][0], d0["ver"][1] + 1 if d0["ver"][1] < 255 else d0["ver"][1] - 1]
                if not any(x["name"] == d0["name"] and x["ver"] == nm for x in root["defs"]) and not any(it[0] in ("f", "c") and it[2].lower() == "famk" for it in d0["secs"][0]["items"]):
                    d1 = copy.deepcopy(d0)
                    d1["ver"] = nm
                    d1["secs"][0]["items"].append(["c", ["u", 8, "s"], "FAMK", "1", [1, 1]])
                    root["defs"].append(d1)
            # in-language reads of `_extent_` (the maximum, not the set) of types that hold parameterised arrays
            for d in root["defs"]:
                for s0 in d["secs"]:
                    refs = [it[1] for it in s0["items"] if it[0] == "f" and it[1][0] == "ref"]
                    if refs and rng.random() < 0.5:
                        t0 = rng.choice(refs)
                        s0["items"].append(["raw", rng.choice(["@assert %s.%d.%d._extent_ %% 8 == 0", "@assert (16 + %s.%d.%d._extent_) * 2 >= 32", "@assert %s.%d.%d._extent_ >= 0"]) % (t0[1], t0[2], t0[3]), []])
            return {"ws": ws, "r": rr, "debug_logging": rng.random() < 0.35, "jumps": [[rng.randrange(2000), rng.choice([-7.0, 3.5, 1e5, -1e5, 1e6])] for _ in range(rng.randint(0, 3))], "exps": EXPONENTS}
        raise RuntimeError("no parameterisable skeleton")

    def execute(self, scn: dict) -> Outcome:
        from ..worlds.workspace import World, classify_exc
        from ..env import clock
        import pydsdl
        out = Outcome()
        pk = os.path.dirname(os.path.realpath(pydsdl.__file__)) + os.sep
        bls_dir = pk + "_bit_length_set" + os.sep
        tp_dir = pk + "third_party" + os.sep
        counts = {"bls": 0, "other": 0, "expand_nonleaf": 0, "big_modulo": 0, "probe": 0}
        limit = {"bls": None}
        fcache: dict = {}

        def tracer(frame, event, arg):
            fn = frame.f_code.co_filename
            kind = fcache.get(fn)
            if kind is None:
                kind = "bls" if fn.startswith(bls_dir) else ("no" if (not fn.startswith(pk) or fn.startswith(tp_dir)) else "other")
                fcache[fn] = kind
            if kind == "no":
                return None
            if event == "call" and kind == "bls":
                name = frame.f_code.co_name
                if name == "expand":
                    cls = type(frame.f_locals.get("self")).__name__
                    counts["probe"] += 1
                    if cls not in ("NullaryOperator", "MemoizationOperator"):
                        counts["expand_nonleaf"] += 1
            return local

        def local(frame, event, arg):
            if event == "line":
                fn = frame.f_code.co_filename
                k = fcache.get(fn, "other")
                counts[k] += 1
                if limit["bls"] is not None and counts["bls"] > limit["bls"]:
                    raise BudgetExceeded()
            elif event == "return" and frame.f_code.co_name == "modulo" and fcache.get(frame.f_code.co_filename) == "bls":
                counts["probe"] += 1
                d = frame.f_locals.get("divisor")
                if isinstance(arg, (set, frozenset)) and isinstance(d, int) and len(arg) > d:
                    counts["big_modulo"] += 1
            return local

        import logging

        class _Formatting(logging.Handler):
            """What an application that lowered the log level to DEBUG has: a handler that formats every record."""
            def emit(self, record):
                try:
                    self.format(record)
                except Exception:
                    pass
        handler = _Formatting()
        debug_logging = bool(scn.get("debug_logging"))

        def measure(ws: dict, jumps) -> tuple[dict, object]:
            if debug_logging:
                lg = logging.getLogger("pydsdl")
                old_state = (logging.root.manager.disable, lg.level)
                logging.disable(logging.NOTSET)
                lg.setLevel(logging.DEBUG)
                lg.addHandler(handler)
                lg.propagate = False
            try:
                return measure0(ws, jumps)
            finally:
                if debug_logging:
                    lg.removeHandler(handler)
                    lg.setLevel(old_state[1])
                    lg.propagate = True
                    logging.disable(old_state[0])

        def measure0(ws: dict, jumps) -> tuple[dict, object]:
            # everything about the host that is not the capacity is held fixed across the capacity schedule (cost is compared)
            w = World({"ws": ws, "debug_logging": False, "warnings_as_errors": bool(scn.get("r", 0) % 3 == 0), "odd_dir": ODD[scn.get("r", 0) % len(ODD)], "mtime": "advance"})
            clock.install()
            clock.reset()
            for k in counts:
                counts[k] = 0
            result = None
            jl = sorted(jumps)
            try:
                uni = w.uni
                sys.settrace(tracer)
                try:
                    res = w.run_read({"op": "rn", "root": {"p": uni.roots[0]["dir"]}, "lookups": [], "key": None, "cwd": ""})
                    res2 = w.run_read({"op": "rn", "root": {"p": uni.roots[0]["dir"]}, "lookups": [], "key": None, "cwd": ""}) if res["ok"] else res
                    if res["ok"] and res2["ok"]:
                        obs = []
                        # equality and hash between *distinct* equal objects (two independent reads), as the namespace reader
                        # itself does when it keeps composites in sets
                        for t1, t2 in zip(res["direct"], res2["direct"]):
                            obs.append([str(t1), t1 == t2, hash(t1) == hash(t2)])
                        for n, t in enumerate(res["direct"]):
                            for (at, dt) in jl:
                                if at % max(1, len(res["direct"])) == n:
                                    clock.jump(dt)
                            parts = [t.request_type, t.response_type] if isinstance(t, pydsdl.ServiceType) else [t]
                            for p in parts:
                                b = p.bit_length_set
                                row = [str(p), b.min, b.max, p.extent, b.fixed_length, b.is_aligned_at_byte(), sorted(set(b % 8))]
                                for f, off in p.iterate_fields_with_offsets():
                                    row.append([f.name, off.is_aligned_at_byte(), off.min, off.max])
                                    if isinstance(f.data_type, pydsdl.CompositeType) and not isinstance(f.data_type, pydsdl.ServiceType):
                                        # the nested / unrolled walk: the offset yielded for a composite field is the base of its fields
                                        for f2, off2 in f.data_type.iterate_fields_with_offsets(off):
                                            row.append([f.name + ">" + f2.name, off2.is_aligned_at_byte(), off2.min, off2.max])
                                row.append(p == p)
                                hash(p)
                                obs.append(row)
                        result = ("ok", obs)
                    else:
                        result = ("exc", classify_exc(res["exc"]), type(res["exc"]).__name__, str(res["exc"])[:200])
                except BudgetExceeded:
                    result = ("budget",)
                finally:
                    sys.settrace(None)
            finally:
                clock.uninstall()
                w.close()
            return dict(counts), result

        W_ws = instantiate(scn["ws"], scn["exps"][0])
        W.validate_ws(W_ws)
        base_counts = None
        base_struct = None
        class_counts: dict = {}
        affine = {kl: affine_class(scn["ws"], pts) for kl, pts in CLASS_POINTS.items()}
        for kl, ok in affine.items():
            out.stats["affine_class_%d" % kl] += 1 if ok else 0
        feats = set()
        for d in scn["ws"]["roots"][0]["defs"]:
            for s in d["secs"]:
                for it in s["items"]:
                    if it[0] == "f" and it[1][0] in ("arr", "var") and isinstance(it[1][2], dict):
                        el = it[1][1]
                        feats.add("%s-of-%s" % (it[1][0], el[0] if el[0] != "ref" else "composite"))
                        if el[0] == "ref" or (el[0] not in ("ref",) and T.bits_of(el) % 8):
                            out.nontrivial = True
        out.shape = digest([sorted(feats), scn["r"]])
        ABS_LIMIT = 3_000_000  # smallest instance: families that are combinatorial *independently of capacity* are skipped
        for idx, j in enumerate(scn["exps"]):
            ws = instantiate(scn["ws"], j)
            klass = 8 if j < 8 else 16 if j < 16 else 32 if j < 32 else 64  # width of the implicit length prefix
            comparable = klass in affine and affine[klass] and klass in class_counts
            if base_counts is None:
                limit["bls"] = ABS_LIMIT
            elif comparable:
                limit["bls"] = 2 * class_counts[klass][1]["bls"] + 2000  # must be identical to the reference of its class
            else:
                limit["bls"] = 10_000_000  # not comparable (first of its class / not affine): only keeps the run finite
            self.heartbeat()
            c, result = measure(ws, scn.get("jumps", []))
            out.stats["instances"] += 1
            out.stats["virtual_steps(bls frames)"] += c["bls"]
            out.stats["virtual_steps(other pydsdl frames)"] += c["other"]
            out.obs.append([j, c["bls"], c["other"], result[0]])
            if result[0] == "budget":
                if not comparable:
                    # expensive independently of capacity, or nothing to compare with: inconclusive, counted, never an alarm
                    out.stats["saturated_families(skipped)"] += 1
                    break
                out.fail("C16.budget", "capacity 2**%d+%d: more than twice the solver steps of 2**%d+%d (%d), although both have the same prefix width and every extent is the same affine function of the capacity: the analysis cost grows with the capacity" % (
                    j, scn["r"], class_counts[klass][0], scn["r"], class_counts[klass][1]["bls"]), "budget")
                break
            if result[0] == "exc":
                if idx == 0:
                    raise InvalidScenario("smallest instance rejected: %s" % (result,))
                out.fail("C16.constant", "capacity 2**%d+%d: reading failed with %s (%s) while the smallest instance is accepted" % (j, scn["r"], result[2], result[3]), "rejected:" + result[2])
                break
            if c["probe"]:
                out.stats["probe_available"] += 1
            if c["expand_nonleaf"]:
                out.fail("C16.no-expand", "capacity 2**%d+%d: %d numerical expansions of non-leaf operators while querying symbolic attributes" % (j, scn["r"], c["expand_nonleaf"]), "expand")
            if c["big_modulo"]:
                out.fail("C16.no-expand", "capacity 2**%d+%d: a residue set larger than its divisor was materialised" % (j, scn["r"]), "big-modulo")
            struct = [[row[0]] + row[4:] for row in result[1]]  # capacity-independent part: names, fixed/aligned flags, residues, alignment of offsets
            struct = digest([[x if not isinstance(x, list) or len(x) != 4 else x[:2] for x in row] for row in struct])
            if base_counts is None:
                base_counts, base_struct = c, struct
                # the same instance again without clock jumps: results must not depend on the clock
                c2, r2 = measure(ws, [])
                if r2 != result:
                    out.fail("C16.clock", "results differ with and without clock jumps", "clock")
                if c2["bls"] != c["bls"]:
                    out.fail("C16.clock", "step count differs with and without clock jumps (%d vs %d)" % (c["bls"], c2["bls"]), "clock-steps")
            ratio = c["bls"] / max(1, base_counts["bls"])
            out.stats["max_step_ratio_x1000"] = max(out.stats["max_step_ratio_x1000"], int(ratio * 1000))
            if not affine.get(klass):
                # a fixed-size member dominates some maximum at one capacity but not at the other: repetition counts differ
                # modulo the divisor and the step counts legitimately differ by a few iterations; not compared
                out.stats["instances_not_comparable(non-affine extents)"] += 1
                continue
            ref = class_counts.get(klass)
            if ref is None:
                class_counts[klass] = (j, c, struct)
                continue
            j0, c0, s0 = ref
            if c["bls"] != c0["bls"]:
                out.fail("C16.constant", "bit-length-set solver steps: %d at capacity 2**%d+%d vs %d at 2**%d+%d (same prefix width; every extent is the same affine function of the capacity, so all repetition counts are congruent)" % (c["bls"], j, scn["r"], c0["bls"], j0, scn["r"]),
                         "steps-bls:" + ("more" if c["bls"] > c0["bls"] else "fewer"))
            if c["other"] != c0["other"]:
                out.fail("C16.constant", "other pydsdl steps: %d at capacity 2**%d+%d vs %d at 2**%d+%d" % (c["other"], j, scn["r"], c0["other"], j0, scn["r"]),
                         "steps-other:" + ("more" if c["other"] > c0["other"] else "fewer"))
            if struct != s0:
                out.fail("C16.constant", "capacity-independent answers (fixed_length / alignment flags / residues) changed with the capacity", "answers")
        # mid-band: capacities below the plateau (12 .. 90). There the repetition counts themselves are the capacities, so the
        # work legitimately grows - but only up to the work of an instance on the plateau whose counts modulo the queried
        # divisors are maximal (capacity 159 = 128 + 31: 15 modulo-8 iterations, 63 modulo-32 iterations, same 8-bit prefix).
        # An implementation that enumerates sets (in ==, hash, alignment queries) explodes exactly in this band.
        if not out.viol and base_counts is not None:
            limit["bls"] = ABS_LIMIT
            self.heartbeat()
            c_ref, r_ref = measure(instantiate(scn["ws"], 7, cap=159), [])
            if r_ref[0] == "ok":
                for cap in (12, 24, 48, 90):
                    limit["bls"] = 50 * c_ref["bls"] + 500_000
                    self.heartbeat()
                    c, result = measure(instantiate(scn["ws"], 7, cap=cap), [])
                    out.stats["midband_instances"] += 1
                    out.obs.append(["cap", cap, c["bls"], result[0]])
                    if result[0] == "budget":
                        out.fail("C16.budget", "capacity %d: more than %d solver steps, while capacity 159 (all repetition counts at least as large modulo 8 and 32) needs %d: the cost explodes below the plateau" % (cap, limit["bls"], c_ref["bls"]), "midband")
                        break
                    if c["expand_nonleaf"]:
                        out.fail("C16.no-expand", "capacity %d: %d numerical expansions of non-leaf operators while querying symbolic attributes" % (cap, c["expand_nonleaf"]), "expand")
                        break
        return out


CHECK = C16()
