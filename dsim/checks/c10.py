"""C10 - namespace reading is complete, ordered and deterministic (World W)."""
from __future__ import annotations
import copy
import random
from ..core.scenario import digest
from ..model import gen as G
from ..model import types as T
from ..model.namespace import Universe
from .base import Check, Outcome, InvalidScenario

STRAYS = ["README.md", "notes.txt", "Msg.1.0.dsdl~", ".Msg.1.0.dsdl.swp", "Makefile", "Item.1.0.dsdl.orig", "x.uavcan.bak"]


def _styles(rng: random.Random, have_link: bool, allow_rel: bool = True) -> str:
    c = ["abs", "abs", "dd", "dot"]
    if allow_rel:
        c += ["cwd", "cwd"]
    if have_link:
        c += ["ln", "ln"] + (["lncwd"] if allow_rel else [])
    return rng.choice(c)


def root_link_style(st: str, ri: int) -> str:
    return "ln%d" % ri if st == "ln" else st


class C10(Check):
    PROP = "C10"
    CRASH_ORACLE = "C10.complete"
    CROSS_SEED = True
    RULE = ("each run = one generated workspace (1-3 roots, nested namespaces, version families, cross-root references, "
            "stray files) x several logical reads (read_namespace per root, read_files on target subsets, directory-set "
            "faults); each logical read is executed 3-5 times with different enumeration keys, cwd, spellings "
            "(abs / cwd-relative / x/../x / trailing '/.' / symlink alias / str vs Path), order and duplication of "
            "directory arguments, and the whole run again under a second PYTHONHASHSEED. distinct = hash of (root count, "
            "definition-count bucket, directories, op kinds, spelling styles used, fault kind); non-trivial = at least two "
            "executions of one logical read differed in key/spelling/hash seed and the workspace has >= 3 definitions in "
            ">= 2 directories")
    RULE = RULE + "; " + 'rounds 7-8: unrelated directories sorting between / around two namesakes; a read that fails after pulling in dependencies before the checked reads'
    TIERS = {"quick": {"runs": 400, "budget_s": 50}, "thorough": {"runs": 40000, "budget_s": 1200}}
    ASSUMPTIONS = ["reference model of namespaces (dsim/model/namespace.py, types.py) encodes the text of C10/C02 only",
                   "cross-hash-seed comparison is done on canonical observation digests by the parent"]

    # ---- generation ----------------------------------------------------------------------------------------------
    def generate(self, rng: random.Random, r: int, tier: str) -> dict:
        # p_derive: some constants are expressions over constants of OTHER definitions (ns.Type.M.m.NAME + n): a dependency that
        # exists only inside an expression is a dependency (closure, transitive list) like any other
        ws = G.gen_workspace(rng, roots=(1, 3), defs=(2, 9), p_split_root=0.15, p_derive=rng.choice([0.0, 0.5]), p_const=rng.choice([0.25, 0.6]), p_other_root_ns=0.15)
        uni = Universe(ws)
        nroots = len(ws["roots"])
        scn: dict = {"ws": ws, "fmt": {}, "symlinks": [["l%d" % i, "w/d%d" % i] for i in range(nroots)], "extra_files": [], "groups": []}
        for k, d in uni.defs.items():
            if rng.random() < 0.4:
                scn["fmt"][k] = G.gen_fmt(rng, d, rich=rng.random() < 0.5)
        # strays
        dirs = sorted({uni.file_of(k).rsplit("/", 1)[0] for k in uni.defs} | {x["dir"] for x in ws["roots"]})
        for _ in range(rng.randint(0, 3)):
            scn["extra_files"].append([rng.choice(dirs) + "/" + rng.choice(STRAYS), "garbage \x01 @@@\n"])
        mode = rng.random()
        groups = scn["groups"]
        if rng.random() < 0.08:
            # twin sub-mode: a second file that encodes the name and version of an existing definition of a root
            k = rng.choice(list(uni.defs))
            d = uni.defs[k]
            short = d["name"].split(".")[-1]
            other_ext = "uavcan" if d.get("ext", "dsdl") == "dsdl" else "dsdl"
            fn = ("%s.%d.%d.%s" % (short, d["ver"][0], d["ver"][1], other_ext)) if (rng.random() < 0.5 or d.get("port") is not None) else ("6200.%s.%d.%d.%s" % (short, d["ver"][0], d["ver"][1], d.get("ext", "dsdl")))
            scn["twin"] = {"def": k, "path": uni.file_of(k).rsplit("/", 1)[0] + "/" + fn, "equal": rng.random() < 0.5}
            for ri in range(nroots):
                groups.append(self._rn_group(rng, uni, ri, fault=None))
            return scn
        # a read_namespace group per root (also the reference for read_files equality)
        for ri in range(nroots):
            groups.append(self._rn_group(rng, uni, ri, fault=None))
        if rng.random() < 0.35 and not self._has_samename(uni, range(nroots)):
            # callers reuse their argument lists: ONE list object holding all roots is passed as lookup_directories to the
            # reads of every root, in sequence
            g = {"kind": "rn", "ops": [], "shared": True}
            order = list(range(nroots)) * 2
            rng.shuffle(order)
            for ri in order:
                g["ops"].append({"op": "rn", "root": self._arg(rng, uni, ri), "lookups": [{"p": uni.roots[x]["dir"]} for x in range(nroots)],
                                 "share_lookups": "all-roots", "key": rng.randrange(1 << 30), "cwd": ""})
            groups.append(g)
        if rng.random() < 0.35:
            g = self._evolve_group(rng, uni)
            if g:
                groups.append(g)
        if rng.random() < 0.2:
            # reads that find nothing (a root namespace directory without definition files; read_files without targets), with
            # the caller modifying the returned lists in between: every call returns lists of its own
            groups.append({"kind": "empty", "dirs": ["w/e8/void_ns", "w/e9/blank_ns"], "look": [x for x in range(nroots) if rng.random() < 0.5],
                           "order": rng.choice(["rn,rf,rn,rf", "rf,rn,rf,rn", "rn,rn,rf,rf"])})
        if mode < 0.25:
            groups.append(self._rn_group(rng, uni, rng.randrange(nroots), fault=rng.choice(["nested_sub", "nested_parent", "case", "same", "case_ok", "same_nested", "same_sub", "nested_samename"])))
        if rng.random() < 0.2:
            # a read that FAILS after it has already pulled in dependencies (the error comes after the references), earlier in the
            # same process than the reads that are checked: nothing of the failed call may surface in later results
            plain = [k for k in uni.defs if len(uni.defs[k]["secs"]) == 1]
            if plain:
                groups.append({"kind": "poison", "refs": rng.sample(plain, min(len(plain), rng.randint(1, 3))),
                               "err": rng.choice(["syntax", "dup", "undefined", "assert"]), "how": rng.choice(["rf", "rn", "rf,rn", "rf,rf"])})
        nrf = rng.randint(1, 2)
        for _ in range(nrf):
            g = self._rf_group(rng, uni)
            if g:
                groups.append(g)
        return scn

    def _needed_roots(self, uni: Universe, keys, own: set[int]) -> set[int]:
        return {uni.root_of[k] for k in uni.closure(keys)} - own

    def _dir_arg(self, rng, uni, ri: int, allow_rel=True) -> dict:
        st = _styles(rng, True, allow_rel)
        return {"p": uni.roots[ri]["dir"], "st": root_link_style(st, ri) if st in ("ln",) else ("ln%d" % ri if st == "ln" else st),
                "ty": rng.choice("sp")}

    def _fix_link(self, arg: dict, ri: int) -> dict:
        if arg["st"] == "lncwd":
            arg["st"] = "abs"
        return arg

    def _rn_group(self, rng, uni: Universe, ri: int, fault: str | None) -> dict:
        nroots = len(uni.roots)
        needed = self._needed_roots(uni, uni.keys_of_root(ri), {ri})
        # roots with the same name as the target contribute to the same namespace: needed if referenced
        others = [x for x in range(nroots) if x != ri]
        extra = {x for x in others if rng.random() < 0.4}
        look = sorted(needed | extra)
        if fault is None and needed and rng.random() < 0.06:
            look = sorted((needed | extra) - {rng.choice(sorted(needed))})
        fault_arg = None
        allow_coll = None
        more_fault_args: list = []
        if fault == "nested_sub":
            subs = sorted({uni.file_of(k).rsplit("/", 1)[0] for k in uni.keys_of_root(ri)} - {uni.roots[ri]["dir"]})
            if subs:
                fault_arg = {"p": rng.choice(subs), "st": rng.choice(["abs", "cwd", "dd"]), "ty": "p"}
            else:
                fault = None
        elif fault == "nested_parent":
            fault_arg = {"p": uni.roots[ri]["dir"].rsplit("/", 1)[0], "st": rng.choice(["abs", "cwd"]), "ty": "p"}
        elif fault in ("case", "same", "case_ok"):
            nm = uni.roots[ri]["name"]
            alt = nm if fault == "same" else (nm.upper() if nm.upper() != nm else nm.lower())
            fault_arg = {"p": "w/x9/" + alt, "st": rng.choice(["abs", "cwd"]), "ty": "p", "mk": True}
            allow_coll = fault == "case_ok" or (fault == "same" and rng.random() < 0.3)
            if rng.random() < 0.5:
                # unrelated (empty) namespace directories whose paths sort between, before and after the two namesakes
                more_fault_args = [{"p": q, "ty": "p", "mk": True} for q in rng.sample(["w/m5/between_ns", "w/a0/first_ns", "w/x9/Aaa_ns", "w/x9/zzz_ns", "w/d0/~late_ns"], rng.randint(1, 3))]
        elif fault in ("same_nested", "same_sub", "nested_samename"):
            # two faults at once: a second directory with the root's name (collisions allowed) AND a nesting pair that involves
            # one of the same-named directories - the nesting must be found whichever of the two is looked at first
            nm = uni.roots[ri]["name"]
            alt = nm if rng.random() < 0.6 else (nm.upper() if nm.upper() != nm else nm.lower())
            pre = rng.choice(["w/x9/", "w/a0/", "w/zz/"])  # sorts before / after the real roots
            allow_coll = True
            if fault == "same_nested":
                extra_fault_args = [{"p": pre + alt, "ty": "p", "mk": True}, {"p": pre + alt + "/" + rng.choice(["inner", alt, "zz"]), "ty": "p", "mk": True}]
            elif fault == "same_sub":
                subs = sorted({uni.file_of(k).rsplit("/", 1)[0] for k in uni.keys_of_root(ri)} - {uni.roots[ri]["dir"]})
                extra_fault_args = [{"p": pre + alt, "ty": "p", "mk": True}, {"p": rng.choice(subs), "ty": "p"} if subs else {"p": uni.roots[ri]["dir"] + "/zz9", "ty": "p", "mk": True}]
            else:
                extra_fault_args = [{"p": uni.roots[ri]["dir"] + "/" + rng.choice(["zz9/", ""]) + alt + ("" if alt != nm else "_x")[:0], "ty": "p", "mk": True}]
                if extra_fault_args[0]["p"] == uni.roots[ri]["dir"] + "/" + nm and any(uni.file_of(k).startswith(extra_fault_args[0]["p"] + "/") for k in uni.defs):
                    pass
            fault_arg = dict(extra_fault_args[0], st="abs")
            more_fault_args = extra_fault_args[1:]
        nexec = rng.randint(3, 5)
        ops = []
        for e in range(nexec):
            cwd = rng.choice(["", "w", uni.roots[ri]["dir"].rsplit("/", 1)[0], uni.roots[rng.randrange(nroots)]["dir"]])
            lk = [self._arg(rng, uni, x) for x in look]
            if fault_arg is not None:
                lk.insert(rng.randint(0, len(lk)), dict(fault_arg, st=rng.choice(["abs", "cwd", "dd"])))
            for fa in more_fault_args:
                lk.insert(rng.randint(0, len(lk)), dict(fa, st=rng.choice(["abs", "cwd", "dd"])))
            if e > 0:
                rng.shuffle(lk)
                if lk and rng.random() < 0.4:
                    lk.append(dict(rng.choice(lk), st=rng.choice(["abs", "cwd", "dd"]) if "mk" in lk[0] or True else "abs"))
                if rng.random() < 0.3:
                    lk.append(self._arg(rng, uni, ri))
            op = {"op": "rn", "root": self._arg(rng, uni, ri), "lookups": lk, "key": rng.randrange(1 << 30) if e else None, "cwd": cwd}
            if len(lk) == 1 and rng.random() < 0.3:
                op["lookups"] = lk[0]
            elif not lk and rng.random() < 0.5:
                op["lookups"] = None
            if isinstance(op["lookups"], list) and e > 0 and rng.random() < 0.35:
                op["lk_kind"] = rng.choice(["tuple", "set", "frozenset", "gen", "iter", "keys", "deque"])
            if allow_coll is not None:
                op["allow_coll"] = allow_coll
            elif rng.random() < 0.3:
                op["allow_coll"] = rng.random() < 0.5 if not self._has_samename(uni, [ri] + look) else True
            ops.append(op)
        g = {"kind": "rn", "ops": ops}
        mk = [fa["p"] for fa in [fault_arg] + more_fault_args if fa is not None and fa.get("mk")]
        if mk:
            g["mkdirs"] = mk
        return g

    def _evolve_group(self, rng, uni: Universe) -> dict | None:
        """The workspace changes between two reads of the same root in one process: definitions that nothing references are
        absent at first and appear later (new nested namespaces included), or the other way round."""
        nroots = len(uni.roots)
        ri = rng.randrange(nroots)
        keys = uni.keys_of_root(ri)
        referenced = {r0 for k0 in uni.defs for r0 in T.def_refs(uni.defs[k0])}
        free = [k for k in keys if k not in referenced]
        # a hidden definition must not be the only other version that keeps a family consistent: hiding only removes
        # constraints, so any subset of unreferenced definitions may be hidden
        if not free or len(keys) < 2:
            return None
        hidden = rng.sample(free, rng.randint(1, min(2, len(free))))
        look = sorted(self._needed_roots(uni, keys, {ri}) | {x for x in range(nroots) if x != ri and rng.random() < 0.3})
        mk = lambda: {"op": "rn", "root": self._arg(rng, uni, ri), "lookups": [self._arg(rng, uni, x) for x in look], "key": rng.randrange(1 << 30), "cwd": rng.choice(["", "w"])}
        order = rng.choice(["appear", "vanish"])
        return {"kind": "evolve", "root": ri, "hidden": hidden, "order": order, "ops": [mk(), mk(), mk()]}

    def _has_samename(self, uni, ris) -> bool:
        names = [uni.roots[x]["name"].lower() for x in set(ris)]
        return len(names) != len(set(names))

    def _arg(self, rng, uni, ri: int, allow_rel: bool = True) -> dict:
        st = _styles(rng, True, allow_rel)
        if st == "ln":
            st = "ln%d" % ri
        elif st == "lncwd":
            st = "ln%d" % ri
        return {"p": uni.roots[ri]["dir"], "st": st, "ty": rng.choice("sp")}

    def _rf_group(self, rng, uni: Universe) -> dict | None:
        keys = list(uni.defs)
        if self._has_samename(uni, range(len(uni.roots))):
            return None
        nt = rng.randint(1, min(4, len(keys)))
        targets = rng.sample(keys, nt)
        troots = sorted({uni.root_of[k] for k in targets})
        needed = sorted(self._needed_roots(uni, targets, set(troots)))
        nexec = rng.randint(3, 5)
        ops = []
        for e in range(nexec):
            cwd = rng.choice(["", "w", uni.roots[troots[0]]["dir"].rsplit("/", 1)[0]])
            files = []
            order = list(targets)
            if e:
                rng.shuffle(order)
                if rng.random() < 0.4:
                    order.append(rng.choice(order))
            for k in order:
                ri = uni.root_of[k]
                st = rng.choice(["abs", "abs", "dd", "ln%d" % ri])
                files.append({"p": uni.file_of(k), "st": st, "ty": rng.choice("sp")})
            roots = []
            for ri in troots:
                style = rng.random()
                if style < 0.55:
                    a = {"p": uni.roots[ri]["dir"], "st": rng.choice(["abs", "dd", "dot", "ln%d" % ri]), "ty": rng.choice("sp")}
                else:
                    a = {"p": uni.roots[ri]["dir"], "st": "name", "ty": rng.choice("sp")}
                roots.append(a)
            split = rng.random()
            look = []
            for ri in needed:
                a = {"p": uni.roots[ri]["dir"], "st": rng.choice(["abs", "dd", "cwd", "ln%d" % ri]), "ty": rng.choice("sp")}
                (look if split < 0.6 else roots).append(a)
            if e:
                rng.shuffle(roots)
                rng.shuffle(look)
                if roots and rng.random() < 0.3:
                    roots.append(dict(rng.choice(roots)))
            op = {"op": "rf", "files": files, "roots": roots, "lookups": look, "key": rng.randrange(1 << 30) if e else None, "cwd": cwd}
            if e > 0:
                if rng.random() < 0.3:
                    op["lk_kind"] = rng.choice(["tuple", "set", "frozenset", "gen", "iter", "keys", "deque"])
                if rng.random() < 0.3:
                    op["files_kind"] = rng.choice(["tuple", "set", "frozenset", "gen", "iter", "keys", "deque"])
                if rng.random() < 0.3:
                    op["roots_kind"] = rng.choice(["tuple", "gen", "iter", "keys", "deque"])
            ops.append(op)
        return {"kind": "rf", "ops": ops}

    # ---- execution -----------------------------------------------------------------------------------------------
    def execute(self, scn: dict) -> Outcome:
        from ..worlds.workspace import World, classify_exc
        from ..worlds import realcanon
        import os
        out = Outcome()
        from ..model import rules
        from ..model.namespace import Universe as _U
        bad = rules.workspace_problems(_U(scn["ws"]))
        if bad:
            raise InvalidScenario("; ".join(bad[:3]))
        w = World(scn)
        try:
            uni = w.uni
            dir_to_root = {r["dir"]: i for i, r in enumerate(uni.roots)}
            file_to_key = {uni.file_of(k): k for k in uni.defs}
            rn_canon: dict[str, str] = {}
            xobs = []
            styles = set()
            faults = set()
            tw = scn.get("twin")
            if tw:
                if tw["def"] not in uni.defs or tw["path"] == uni.file_of(tw["def"]) or tw["path"].rsplit("/", 1)[0] != uni.file_of(tw["def"]).rsplit("/", 1)[0]:
                    raise InvalidScenario("bad twin")
                w.write(tw["path"], w.texts[tw["def"]] if tw["equal"] else "uint64 twin_other_body\n@sealed\n")
                faults.add("twin")
            multi_variant = False
            for gi, g in enumerate(scn["groups"]):
                for p in g.get("mkdirs", []):
                    os.makedirs(w.abs(p), exist_ok=True)
                if g["kind"] == "evolve":
                    self._run_evolve(out, w, uni, g, gi, dir_to_root, faults)
                    continue
                if g["kind"] == "empty":
                    self._run_empty(out, w, uni, g, gi, faults)
                    continue
                if g["kind"] == "poison":
                    self._run_poison(out, w, uni, g, gi, faults)
                    continue
                canons = []
                variants = set()
                for oi, op in enumerate(g["ops"]):
                    res = w.run_read(op)
                    co = w.canon_out(res)
                    cd = digest(co)
                    canons.append(cd)
                    where = "group %d op %d" % (gi, oi)
                    out.obs.append([gi, oi, cd, classify_exc(res["exc"]) if not res["ok"] else "ok"])
                    variants.add(digest([op.get("key"), op.get("cwd"), op.get("root"), op.get("lookups"), op.get("files"), op.get("roots")]))
                    for a in self._args(op):
                        styles.add(a.get("st", "abs")[:2])
                    out.stats["reads"] += 1
                    if op["op"] == "rn":
                        self._check_rn(out, w, uni, op, res, dir_to_root, rn_canon, where, faults)
                    else:
                        self._check_rf(out, w, uni, op, res, dir_to_root, file_to_key, rn_canon, where)
                if len(set(canons)) > 1 and not g.get("shared") and not (bool(tw) and g["kind"] == "rn" and any(dir_to_root.get(o["root"]["p"]) == uni.root_of[tw["def"]] for o in g["ops"])):
                    out.fail("C10.invariance", "group %d: %d distinct canonical observations among %d equivalent executions: %s" % (gi, len(set(canons)), len(canons), canons))
                if len(variants) > 1:
                    multi_variant = True
                twin_hit = bool(tw) and g["kind"] == "rn" and any(dir_to_root.get(o["root"]["p"]) == uni.root_of[tw["def"]] for o in g["ops"])
                # which of two equal twins survives depends on set order (known finding F7b): reported by C10.complete with
                # its own signature, not through the cross-hash-seed digest
                xobs.append(["twin"] if twin_hit else canons)
            for m in w.mutated_shared_args():
                out.fail("C10.invariance", "a list passed as lookup_directories to several calls was modified by the calls: " + m, "argument-mutated")
            out.xobs = xobs
            ndirs = len({uni.file_of(k).rsplit("/", 1)[0] for k in uni.defs})
            out.nontrivial = multi_variant and len(uni.defs) >= 3 and ndirs >= 2
            out.shape = digest([len(uni.roots), min(len(uni.defs), 8) // 2, ndirs, [g["kind"] for g in scn["groups"]], sorted(styles), sorted(faults)])
            for f in faults:
                out.stats["fault:" + f] += 1
            for s in styles:
                out.stats["style:" + s] += 1
            out.stats["open_order_signatures"] = len({digest(l) for l in w.open_logs})
        finally:
            w.close()
        return out

    def _run_evolve(self, out, w, uni, g, gi, dir_to_root, faults) -> None:
        import os
        import shutil
        from ..worlds.workspace import classify_exc
        ri = g["root"]
        hidden = [k for k in g["hidden"] if k in uni.defs and uni.root_of[k] == ri]
        referenced = {r0 for k0 in uni.defs for r0 in T.def_refs(uni.defs[k0])}
        if not hidden or any(k in referenced for k in hidden):
            raise InvalidScenario("hidden definitions must exist in the root and be unreferenced")
        faults.add("evolve:" + g["order"])
        allk = uni.keys_of_root(ri)
        visible = [k for k in allk if k not in hidden]

        def hide():
            for k in hidden:
                p = w.abs(uni.file_of(k))
                if os.path.exists(p):
                    os.remove(p)
                d = os.path.dirname(p)
                while d != w.abs(uni.roots[ri]["dir"]) and os.path.isdir(d) and not os.listdir(d):
                    os.rmdir(d)
                    d = os.path.dirname(d)

        def show():
            for k in hidden:
                w.write(uni.file_of(k), w.texts[k])
        phases = [("hidden", hide, visible), ("shown", show, allk), ("hidden", hide, visible)] if g["order"] == "appear" else [("shown", show, allk), ("hidden", hide, visible), ("shown", show, allk)]
        try:
            for (name, act, want), op in zip(phases, g["ops"]):
                act()
                res = w.run_read(op)
                out.stats["reads"] += 1
                out.obs.append([gi, name, "ok" if res["ok"] else classify_exc(res["exc"])])
                if not res["ok"]:
                    out.fail("C10.complete", "group %d (%s, definitions %s %s): valid namespace rejected: %s: %s" % (gi, g["order"], hidden, name, type(res["exc"]).__name__, str(res["exc"])[:300]), "evolve-rejected:" + type(res["exc"]).__name__)
                    continue
                got = [str(t) for t in res["direct"]]
                if got != want:
                    out.fail("C10.complete", "group %d: after the definitions %s were %s (same process, same directory) read_namespace returned %s, the directory holds %s" % (gi, hidden, name, got, want), "evolve-stale:" + name)
        finally:
            show()

    def _run_poison(self, out, w, uni, g, gi, faults) -> None:
        refs = [k for k in g["refs"] if k in uni.defs and len(uni.defs[k]["secs"]) == 1]
        if not refs:
            raise InvalidScenario("poison group without references")
        faults.add("failed-read-before")
        tail = {"syntax": "uint8 %%% broken", "dup": "uint8 r0", "undefined": "poison_ns.Missing.9.9 m", "assert": "@assert 1 == 2"}[g["err"]]
        text = "".join("%s r%d\n" % (k, i) for i, k in enumerate(refs)) + tail + "\n@extent 1 << 20\n"
        w.write("w/p7/poison_ns/Bad.1.0.dsdl", text)
        look = [{"p": r0["dir"]} for r0 in uni.roots]
        for step in g["how"].split(","):
            if step == "rf":
                res = w.run_read({"op": "rf", "files": [{"p": "w/p7/poison_ns/Bad.1.0.dsdl"}], "roots": [{"p": "w/p7/poison_ns"}], "lookups": look, "key": None, "cwd": ""})
            else:
                res = w.run_read({"op": "rn", "root": {"p": "w/p7/poison_ns"}, "lookups": look, "key": None, "cwd": ""})
            out.stats["reads"] += 1
            out.obs.append([gi, step, "ok" if res["ok"] else type(res["exc"]).__name__])
            if res["ok"]:
                raise InvalidScenario("the poisoned definition was accepted")
        import os
        os.remove(w.abs("w/p7/poison_ns/Bad.1.0.dsdl"))

    def _run_empty(self, out, w, uni, g, gi, faults) -> None:
        import os
        faults.add("empty-reads")
        for d in g["dirs"]:
            os.makedirs(w.abs(d), exist_ok=True)
        look = [{"p": uni.roots[x]["dir"]} for x in g["look"] if x < len(uni.roots)]
        n = 0
        junk = "junk-object"
        for step in g["order"].split(","):
            if step == "rn":
                res = w.run_read({"op": "rn", "root": {"p": g["dirs"][n % 2]}, "lookups": look, "key": None, "cwd": ""})
                n += 1
                lists = [res["direct"]] if res["ok"] else []
            else:
                res = w.run_read({"op": "rf", "files": [], "roots": [{"p": r0["dir"]} for r0 in uni.roots], "lookups": look, "key": None, "cwd": ""})
                lists = [res["direct"], res["transitive"]] if res["ok"] else []
            out.stats["reads"] += 1
            out.obs.append([gi, step, "ok" if res["ok"] else type(res["exc"]).__name__])
            if not res["ok"]:
                out.fail("C10.complete", "group %d: a read that has nothing to read (%s) raised %s: %s" % (gi, step, type(res["exc"]).__name__, str(res["exc"])[:200]), "empty-rejected:" + type(res["exc"]).__name__)
                continue
            for lst in lists:
                if not isinstance(lst, list) or lst:
                    out.fail("C10.complete", "group %d: a read that has nothing to read (%s) returned %r" % (gi, step, [str(x) for x in lst] if isinstance(lst, list) else type(lst).__name__), "empty-not-empty")
                if isinstance(lst, list):
                    lst.append(junk)  # the caller goes on to use its list (types = read_namespace(a); types += read_namespace(b))
                    lst.extend(["marker", 42])

    def _args(self, op):
        for k in ("root", "lookups", "files", "roots"):
            v = op.get(k)
            if isinstance(v, dict):
                yield v
            elif isinstance(v, list):
                yield from v

    def _dirset_verdict(self, dirs: list[str], allow_coll: bool) -> str | None:
        ds = sorted(set(dirs))
        for a in ds:
            for b in ds:
                if a != b and (a.startswith(b + "/")):
                    return "nested"
        if not allow_coll:
            names = [d.rsplit("/", 1)[-1].lower() for d in ds]
            if len(names) != len(set(names)):
                return "collision"
        return None

    def _check_rn(self, out, w, uni, op, res, dir_to_root, rn_canon, where, faults) -> None:
        from ..worlds import realcanon
        from ..worlds.workspace import classify_exc
        lk = op.get("lookups")
        lk = [] if lk is None else [lk] if isinstance(lk, dict) else lk
        dirs = [op["root"]["p"]] + [a["p"] for a in lk]
        verdict = self._dirset_verdict(dirs, op.get("allow_coll", True))
        if verdict:
            faults.add(verdict)
            if res["ok"] or classify_exc(res["exc"]) != "IDE":
                out.fail("C10.dirset", "%s: directory set %s is %s but the call %s" % (where, sorted(set(dirs)), verdict,
                         "returned" if res["ok"] else "raised " + type(res["exc"]).__name__))
            return
        ri = dir_to_root[op["root"]["p"]]
        visible = {ri} | {dir_to_root[d] for d in dirs[1:] if d in dir_to_root}
        keys = uni.keys_of_root(ri)
        tw = w.scn.get("twin")
        if tw and uni.root_of[tw["def"]] in visible:
            # two files encode one name and version. Read as targets: either both files are reported (impossible: one
            # identity) or the set is rejected; never a silent choice of one of them. Seen through a lookup: only a
            # reference to that identity is a conflict (C09); otherwise nothing may change.
            if uni.root_of[tw["def"]] == ri:
                if res["ok"]:
                    srcs = sorted(w.rel(t.source_file_path) for t in res["direct"] if str(t) == tw["def"])
                    out.fail("C10.complete", "%s: files %s and %s encode the same name and version; the call returned %d composite(s) for them (%s)" % (
                        where, uni.file_of(tw["def"]), tw["path"], len(srcs), srcs), "twin-silently-deduplicated")
                elif classify_exc(res["exc"]) != "IDE":
                    out.fail("C10.complete", "%s: twin files: raised %s" % (where, type(res["exc"]).__name__), "twin-crash:" + type(res["exc"]).__name__)
                return
            referenced = {r0 for k0 in uni.closure(keys) for r0 in T.def_refs(uni.defs[k0])}
            if tw["def"] in referenced:
                if res["ok"] or classify_exc(res["exc"]) != "IDE":
                    out.fail("C10.complete", "%s: a reference to %s is ambiguous (twin files) but the call %s" % (where, tw["def"], "returned" if res["ok"] else "raised " + type(res["exc"]).__name__), "twin-ambiguous-reference")
                return
        missing = uni.missing_refs(keys, visible)
        if missing:
            faults.add("missing_lookup")
            if res["ok"] or classify_exc(res["exc"]) != "IDE":
                out.fail("C10.complete", "%s: reference %s -> %s has no visible definition but the call %s" % (
                    where, missing[0][0], missing[0][1], "returned" if res["ok"] else "raised " + type(res["exc"]).__name__))
            return
        if not res["ok"]:
            out.fail("C10.complete", "%s: valid namespace rejected: %s: %s" % (where, type(res["exc"]).__name__, res["exc"]), "rejected:" + type(res["exc"]).__name__)
            return
        got = [str(t) for t in res["direct"]]
        if sorted(got) != sorted(keys):
            out.fail("C10.complete", "%s: got %s, model %s" % (where, got, keys))
            return
        if got != keys:
            out.fail("C10.order", "%s: got %s, model %s" % (where, got, keys))
        m = realcanon.Matcher(uni.res)
        c = realcanon.Canon(w.scratch)
        for t in res["direct"]:
            k = str(t)
            m.message(k, k, t)
            want = uni.file_of(k)
            if w.rel(t.source_file_path) != want:
                out.fail("C10.complete", "%s: %s taken from %s, model %s" % (where, k, w.rel(t.source_file_path), want))
            if w.rel(t.source_file_path_to_root) != uni.roots[ri]["dir"]:
                out.fail("C10.complete", "%s: %s root %s" % (where, k, w.rel(t.source_file_path_to_root)))
            rn_canon.setdefault(k, digest(c.composite(t)))
        if m.bad:
            out.fail("C10.complete", "%s: structure differs from the model: %s" % (where, "; ".join(m.bad[:4])))
        out.stats["rn_ok"] += 1

    def _check_rf(self, out, w, uni, op, res, dir_to_root, file_to_key, rn_canon, where) -> None:
        from ..worlds import realcanon
        targets = []
        for a in op["files"]:
            k = file_to_key[a["p"]]
            if k not in targets:
                targets.append(k)
        visible = {uni.root_of[k] for k in targets}
        for a in list(op.get("roots") or []) + list(op.get("lookups") or []):
            if a["p"] in dir_to_root:
                visible.add(dir_to_root[a["p"]])
        if uni.missing_refs(targets, visible):
            return
        if not res["ok"]:
            out.fail("C10.files", "%s: valid read_files rejected: %s: %s" % (where, type(res["exc"]).__name__, res["exc"]), "rejected:" + type(res["exc"]).__name__)
            return
        want_d = uni.sorted_keys(targets)
        want_t = uni.sorted_keys(uni.closure(targets) - set(targets))
        got_d = [str(t) for t in res["direct"]]
        got_t = [str(t) for t in res["transitive"]]
        if got_d != want_d or got_t != want_t:
            which = "C10.order" if sorted(got_d) == sorted(want_d) and sorted(got_t) == sorted(want_t) else "C10.files"
            out.fail(which, "%s: direct %s transitive %s; model direct %s transitive %s" % (where, got_d, got_t, want_d, want_t))
            return
        c = realcanon.Canon(w.scratch)
        for t in list(res["direct"]) + list(res["transitive"]):
            k = str(t)
            if k in rn_canon and digest(c.composite(t)) != rn_canon[k]:
                out.fail("C10.files", "%s: %s differs from what read_namespace yields for the same file" % (where, k))
        out.stats["rf_ok"] += 1
        out.stats["rf_transitive_nonempty"] += 1 if want_t else 0

    def simplify(self, scn: dict):
        # fewer executions per group, drop formatting
        for gi, g in enumerate(scn.get("groups", [])):
            if len(g.get("ops", [])) > 2:
                for i in range(len(g["ops"])):
                    c = copy.deepcopy(scn)
                    del c["groups"][gi]["ops"][i]
                    yield c
        for gi in range(len(scn.get("groups", []))):
            c = copy.deepcopy(scn)
            del c["groups"][gi]
            yield c


CHECK = C10()
