"""C19 - definitions outside the dependency closure cannot influence the result (World W)."""
from __future__ import annotations
import random
from ..core.scenario import digest
from ..model import gen as G
from ..model import types as T
from ..model import faults as F
from ..model.namespace import Universe
from .base import Check, Outcome, InvalidScenario
from . import wcommon as W


def decode_path(uni: Universe, rel: str):
    """(lower-cased full name, major, minor) encoded by a path under one of the roots, or None."""
    for r in uni.roots:
        if rel.startswith(r["dir"] + "/"):
            parts = rel[len(r["dir"]) + 1:].split("/")
            base = parts[-1].split(".")[:-1]
            if len(base) == 4:
                base = base[1:]
            if len(base) != 3:
                return None
            try:
                return (".".join([r["name"]] + parts[:-1] + [base[0]]).lower(), int(base[1]), int(base[2]))
            except ValueError:
                return None
    return None


def decode_extra(scn: dict, uni: Universe, rel: str):
    """Identity encoded by a path under an extra lookup directory that contributes to an existing root namespace."""
    for dpath in scn.get("extra_dirs", []):
        if rel.startswith(dpath + "/"):
            parts = rel[len(dpath) + 1:].split("/")
            base = parts[-1].split(".")[:-1]
            if len(base) == 4:
                base = base[1:]
            if len(base) != 3:
                return None
            try:
                return (".".join([dpath.rsplit("/", 1)[-1]] + parts[:-1] + [base[0]]).lower(), int(base[1]), int(base[2]))
            except ValueError:
                return None
    return None


class C19(Check):
    PROP = "C19"
    CRASH_ORACLE = "C19.invariance"
    RULE = ("each run = one generated workspace + one logical read (read_namespace of a root with lookups, or read_files of a "
            "target subset) executed three times; between the executions the simulator rewrites, adds or renames files that "
            "the reference model proves to be outside the dependency closure (garbage, every rule violation of the catalogue, "
            "failing @assert, @print, kind/extent/port-ID conflicts with other lookup definitions, empty files, odd directory "
            "names, twins = other files encoding the name and version of a target that nothing references - beside a read_files "
            "target or in a second directory of the same root namespace; malformed file names in a separate sub-mode). One run in six plants an error *inside* the closure so that "
            "the 'same error' half is exercised. distinct = hash of (op kind, number of out-of-closure files listed by the "
            "reader, sorted fault kinds); non-trivial = at least one edited/added file lies in a directory the reader scans "
            "and is provably outside the closure")
    RULE = RULE + "; " + 'round 8: overlay sub-scenario (two directories of one root namespace, same relative path, relative target, the other copy rewritten between reads)'
    TIERS = {"quick": {"runs": 3200, "budget_s": 50}, "thorough": {"runs": 60000, "budget_s": 1200}}
    ASSUMPTIONS = ["closure computed by the abstract namespace model from the scenario (never from pydsdl)"]

    def generate(self, rng: random.Random, r: int, tier: str) -> dict:
        ws = G.gen_workspace(rng, roots=(2, 3), defs=(3, 10), p_ref=0.35, p_cross_root=0.7, p_port=rng.choice([0.15, 0.4]))
        uni = Universe(ws)
        nroots = len(ws["roots"])
        scn: dict = {"ws": ws, "fmt": {}, "symlinks": W.symlinks_for(ws), "pre": [], "reads": [], "edits": []}
        if rng.random() < 0.5:
            ri = rng.randrange(nroots)
            look = [x for x in range(nroots) if x != ri]
            mk = lambda: W.rn_op(rng, uni, ri, look)
            targets = uni.keys_of_root(ri)
        else:
            keys = list(uni.defs)
            targets = rng.sample(keys, rng.randint(1, min(3, len(keys))))
            troots = {uni.root_of[k] for k in targets}
            look = [x for x in range(nroots) if x not in troots]
            mk = lambda: W.rf_op(rng, uni, targets, look)
        scn["reads"] = [mk(), mk(), mk()]
        closure = uni.closure(targets)
        referenced = {r0 for k0 in closure for r0 in T.def_refs(uni.defs[k0])}
        pure_targets = [k0 for k0 in targets if k0 not in referenced]
        twin_dir = None
        if scn["reads"][0]["op"] == "rn" and rng.random() < 0.5:
            # a second directory contributing to the *same* root namespace, listed as a lookup directory
            twin_dir = "w/dx/" + ws["roots"][ri]["name"]
            scn["extra_dirs"] = [twin_dir]
            for op in scn["reads"]:
                op["lookups"] = list(op["lookups"]) + [{"p": twin_dir, "st": rng.choice(["abs", "cwd", "dd"]), "ty": "p"}]
                rng.shuffle(op["lookups"])
        out_keys = [k for k in uni.defs if k not in closure]
        closure_ids = {(uni.defs[k]["name"].lower(), uni.defs[k]["ver"][0], uni.defs[k]["ver"][1]) for k in closure}
        scanned_dirs = sorted({uni.file_of(k).rsplit("/", 1)[0] for k in uni.defs} | {x["dir"] for x in ws["roots"]})
        is_rn = scn["reads"][0]["op"] == "rn"
        tdir = scn["reads"][0]["root"]["p"] if is_rn else None
        case_target = None
        if rng.random() < 0.12 and closure and out_keys:
            # an error *inside* the closure that mentions an out-of-closure definition by name only: a reference that differs
            # from an existing name by letter case is rejected from the file names alone; the look-alike's text is never needed
            k = rng.choice(sorted(closure))
            x = uni.defs[rng.choice(out_keys)]
            comps = x["name"].split(".")
            alt = comps[-1].swapcase()
            if alt != comps[-1] and not T.is_service(x):
                sec0 = uni.defs[k]["secs"][0]
                sec0["items"].append(["raw", "%s.%d.%d case_ref_field" % (".".join(comps[:-1] + [alt]), x["ver"][0], x["ver"][1]), []])
                scn["closure_error"] = "case_ref"
                case_target = T.def_key(x)
        elif rng.random() < 0.12 and closure and out_keys:
            # an error inside the closure that names an out-of-closure definition: a reference to a version that does not exist
            # while other versions of that name do (they are bystanders: a diagnostic may list them, it must not evaluate them)
            k = rng.choice(sorted(closure))
            x = uni.defs[rng.choice(out_keys)]
            vers = {tuple(y["ver"]) for y in uni.defs.values() if y["name"] == x["name"]}
            cand = [(x["ver"][0], m) for m in range(0, 12) if (x["ver"][0], m) not in vers and (x["ver"][0], m) != (0, 0)] + [(x["ver"][0] + 1, 0)]
            cand = [v for v in cand if v not in vers]
            if cand and not T.is_service(x):
                v = rng.choice(cand)
                sec0 = uni.defs[k]["secs"][0]
                sec0["items"].append(["raw", "%s.%d.%d missing_version_field" % (x["name"], v[0], v[1]), []])
                scn["closure_error"] = "missing_version_ref"
                scn["protected"] = [x["name"].lower(), v[0], v[1]]  # no edit may create the missing version
                case_target = T.def_key(x)
        elif rng.random() < 0.17 and closure:
            k = rng.choice(sorted(closure))
            name = rng.choice(["assert_false", "bad_width", "undefined_type", "no_seal", "const_range", "garbage", "union_one"])
            scn["pre"].append({"op": "write", "path": uni.file_of(k), "text": F.TEXT_FAULTS[name], "kind": "closure:" + name})
        if rng.random() < 0.3 and closure and out_keys:
            # closure definitions *mention* out-of-closure definitions - in a comment or a string, with name and version - without
            # referring to them: a mention is not a reference, the mentioned file stays a bystander
            for _ in range(rng.randint(1, 2)):
                k = rng.choice(sorted(closure))
                x = uni.defs[rng.choice(out_keys)]
                full = "%s.%d.%d" % (x["name"], x["ver"][0], x["ver"][1])
                short = "%s.%d.%d" % (x["name"].split(".")[-1], x["ver"][0], x["ver"][1])
                sec0 = uni.defs[k]["secs"][0]
                how = rng.randrange(3)
                if how == 0 and sec0.get("hdr") is None:
                    sec0["hdr"] = "Supersedes %s (see also %s)" % (full, short)
                elif how == 1:
                    sec0["items"].append(["raw", "@print '%s'" % rng.choice([full, short]), []])
                else:
                    sec0["items"].append(["raw", "@assert true  # was: %s field_x; cf. %s" % (full, short), []])
                if case_target is None:
                    case_target = T.def_key(x)
            scn["mentions"] = True
        for batch in range(2):
            edits = []
            n = rng.randint(1, 3)
            for _ in range(n):
                r0 = rng.random()
                if out_keys and r0 < 0.5:
                    k = case_target if (case_target and rng.random() < 0.7) else rng.choice(out_keys)
                    name, text = F.pick_text_fault(rng)
                    if rng.random() < 0.06:
                        # a bystander that became a very large file (more than a megabyte of comment lines / garbage)
                        edits.append({"op": "write", "path": uni.file_of(k), "text": rng.choice(["# filler line of a very large file ....................\n", "%%% garbage {{{ \x01\n"]),
                                      "repeat": 30000, "kind": "replace:huge"})
                    else:
                        edits.append({"op": "write", "path": uni.file_of(k), "text": text, "kind": "replace:" + name})
                elif r0 < 0.62 and pure_targets:
                    # a twin: another file encoding the same name and version as a target that nothing references
                    k = rng.choice(pure_targets)
                    d0 = uni.defs[k]
                    name, text = F.pick_text_fault(rng)
                    short = d0["name"].split(".")[-1]
                    sub = "/".join(d0["name"].split(".")[1:-1])
                    if is_rn:
                        if twin_dir is None:
                            continue
                        base = twin_dir + ("/" + sub if sub else "")
                        fn = rng.choice(["%s.%d.%d.dsdl", "%s.%d.%d.uavcan", "77.%s.%d.%d.dsdl"]) % (short, d0["ver"][0], d0["ver"][1])
                    else:
                        base = uni.file_of(k).rsplit("/", 1)[0]
                        other_ext = "uavcan" if d0.get("ext", "dsdl") == "dsdl" else "dsdl"
                        fn = rng.choice(["%s.%d.%d." + other_ext, "4321.%s.%d.%d.dsdl" if d0.get("port") is None else "%s.%d.%d." + other_ext]) % (short, d0["ver"][0], d0["ver"][1])
                    edits.append({"op": "write", "path": base + "/" + fn, "text": text, "kind": "twin:" + name})
                elif r0 < 0.8:
                    # a brand-new file outside the closure
                    cand_dirs = [d for d in scanned_dirs if not (is_rn and (d == tdir or d.startswith(tdir + "/")))]
                    if not cand_dirs:
                        continue
                    d = rng.choice(cand_dirs)
                    name, text = F.pick_text_fault(rng)
                    style = rng.random()
                    if style < 0.4 and out_keys:
                        # another version of an out-of-closure name: version / kind / extent conflicts between lookups
                        base = uni.defs[rng.choice(out_keys)]
                        bd = uni.file_of(T.def_key(base)).rsplit("/", 1)[0]
                        fn = "%s.%d.%d.dsdl" % (base["name"].split(".")[-1], base["ver"][0], rng.choice([x for x in range(0, 9) if x != base["ver"][1]]))
                        path = bd + "/" + fn
                    elif style < 0.7:
                        port = rng.choice([0, 1, 100, 6144, 7167, 8191, 9999, 511])
                        for dd in uni.defs.values():
                            if dd.get("port") is not None and rng.random() < 0.7:
                                port = dd["port"]
                        tp = [k0 for k0 in targets if uni.defs[k0].get("port") is not None]
                        if tp and not is_rn and rng.random() < 0.8:
                            # an unrequested sibling of a read_files target whose file name carries the target's port number
                            k0 = rng.choice(tp)
                            port = uni.defs[k0]["port"]
                            d = rng.choice([uni.file_of(k0).rsplit("/", 1)[0], uni.roots[uni.root_of[k0]]["dir"]])
                        path = "%s/%d.Zq%d.%d.%d.%s" % (d, port, rng.randint(0, 9), rng.randint(0, 3), rng.randint(1, 3), rng.choice(["dsdl", "uavcan"]))
                    elif style < 0.85:
                        path = "%s/%s/Zq%d.1.0.dsdl" % (d, rng.choice(["bad-dir", "uint8", "_x_", "UPPER", "9lives"]), rng.randint(0, 9))
                    else:
                        path = "%s/Zq%d.%d.%d.dsdl" % (d, rng.randint(0, 9), rng.choice([0, 1, 255, 256, 999]), rng.choice([0, 1, 300]))
                    svcs = [k0 for k0 in sorted(closure) if T.is_service(uni.defs[k0])]
                    if svcs and rng.random() < 0.25:
                        # an unreferenced definition in a nested namespace named exactly like a service of the closure, with the short
                        # name of one of the service's implicit section types (Svc/Request.1.0.dsdl next to Svc.1.0.dsdl)
                        k0 = rng.choice(svcs)
                        comps0 = uni.defs[k0]["name"].split(".")
                        vv = rng.choice([list(uni.defs[k0]["ver"]), [1, 0], [uni.defs[k0]["ver"][0], 7]])
                        leaf = "%s/%s.%d.%d.dsdl" % (comps0[-1], rng.choice(["Request", "Response"]), vv[0], vv[1])
                        if not is_rn:
                            path = uni.file_of(k0).rsplit("/", 1)[0] + "/" + leaf
                        elif twin_dir and uni.root_of[k0] == ri:
                            path = "/".join([twin_dir] + comps0[1:-1] + [leaf])
                    if decode_path(uni, path) in closure_ids or path in {uni.file_of(k) for k in closure}:
                        continue
                    if scn.get("protected") and decode_path(uni, path) == tuple(scn["protected"]):
                        continue
                    edits.append({"op": "write", "path": path, "text": text, "kind": "add:" + name})
                elif r0 < 0.9 and out_keys:
                    k = rng.choice(out_keys)
                    edits.append({"op": "write", "path": uni.file_of(k), "text": uni_text_placeholder(), "kind": "restore"})
                else:
                    cand_dirs = [d for d in scanned_dirs if not (is_rn and (d == tdir or d.startswith(tdir + "/")))]
                    if cand_dirs:
                        edits.append({"op": "write", "path": rng.choice(cand_dirs) + "/" + rng.choice(F.MALFORMED_FILE_NAMES),
                                      "text": F.TEXT_FAULTS["garbage"], "kind": "badname"})
            scn["edits"].append(edits)
        for k, d in uni.defs.items():
            if rng.random() < 0.3:
                scn["fmt"][k] = G.gen_fmt(rng, d, rich=False)
        if rng.random() < 0.4:
            scn["preread"] = rng.randrange(1 << 20)  # another read (other targets, same directories) earlier in the same process
        if rng.random() < 0.15:
            dn = rng.choice([("zz_overlay", "aa_upstream"), ("aa_overlay", "zz_upstream"), ("m1", "m0"), ("B", "a"), ("x", "x2")])
            scn["overlay"] = {"dirs": list(dn), "deep": rng.random() < 0.5, "cwd": rng.choice(["", "w", "w/ov"]),
                              "steps": rng.sample(["valid", "garbage", "rule", "print", "same"], rng.randint(2, 4))}
        return scn

    def execute(self, scn: dict) -> Outcome:
        from ..worlds.workspace import World, exc_info, classify_exc
        out = Outcome()
        uni0 = W.validate_ws(scn["ws"])
        w = World(scn)
        try:
            uni = w.uni
            targets, vis = W.op_targets(uni, scn["reads"][0])
            for op in scn["reads"][1:]:
                t2, v2 = W.op_targets(uni, op)
                if sorted(t2) != sorted(targets) or v2 != vis:
                    raise InvalidScenario("the reads of one run must be the same logical read")
            closure = uni.closure(targets)
            if uni.missing_refs(targets, vis):
                raise InvalidScenario("closure not visible")
            closure_files = {uni.file_of(k) for k in closure}
            closure_ids = {(uni.defs[k]["name"].lower(), uni.defs[k]["ver"][0], uni.defs[k]["ver"][1]) for k in closure}
            scanned = [uni.roots[i]["dir"] for i in sorted(vis)] + list(scn.get("extra_dirs", []))
            referenced_ids = set()
            for k0 in closure:
                for r0 in T.def_refs(uni.defs[k0]):
                    if r0 in uni.defs:
                        referenced_ids.add((uni.defs[r0]["name"].lower(), uni.defs[r0]["ver"][0], uni.defs[r0]["ver"][1]))
            target_files = {uni.file_of(k0) for k0 in targets}
            is_rn = scn["reads"][0]["op"] == "rn"
            tdir = scn["reads"][0]["root"]["p"] if is_rn else None
            closure_err = bool(scn.get("closure_error"))
            for e in scn.get("pre", []):
                if e["path"] not in closure_files:
                    raise InvalidScenario("pre-edit outside the closure")
                w.apply_edit(e)
                closure_err = True
            if scn.get("preread") is not None and not closure_err and not scn.get("extra_dirs"):
                # history: the same process read OTHER targets from the same directories before (everything the directories hold):
                # what that call reached has nothing to do with the reads below
                op0 = scn["reads"][0]
                if is_rn:
                    others = [i for i in sorted(vis) if uni.roots[i]["dir"] != tdir]
                    pre = {"op": "rn", "root": {"p": uni.roots[others[scn["preread"] % len(others)]]["dir"]} if others else op0["root"],
                           "lookups": [{"p": uni.roots[i]["dir"]} for i in sorted(vis)], "key": None, "cwd": "", "allow_unreg": op0.get("allow_unreg", False)}
                else:
                    allk = [k0 for k0 in uni.defs if uni.root_of[k0] in vis]
                    pre = {"op": "rf", "files": [{"p": uni.file_of(k0)} for k0 in allk], "roots": [{"p": uni.roots[i]["dir"]} for i in sorted({uni.root_of[k0] for k0 in allk})],
                           "lookups": [a for a in (op0.get("lookups") or [])], "key": None, "cwd": "", "allow_unreg": op0.get("allow_unreg", False)}
                w.run_read(pre)
                out.stats["prereads_of_other_targets"] += 1
            kinds = set()
            listed = 0
            badname = False
            results = []
            canons = []
            for i, op in enumerate(scn["reads"]):
                if i > 0:
                    for e in scn["edits"][i - 1] if i - 1 < len(scn["edits"]) else []:
                        p = e["path"]
                        if p in closure_files:
                            raise InvalidScenario("edit touches the closure: " + p)
                        if is_rn and (p.startswith(tdir + "/")):
                            raise InvalidScenario("edit inside the target root of read_namespace: " + p)
                        ident = decode_path(uni, p) or decode_extra(scn, uni, p)
                        if ident is not None and scn.get("protected") and ident == tuple(scn["protected"]):
                            raise InvalidScenario("edit creates the version whose absence is the planted closure error: " + p)
                        if ident is not None and ident in closure_ids:
                            # allowed only for a twin of a target that no closure member references (nothing resolves it)
                            if ident in referenced_ids or p in target_files:
                                raise InvalidScenario("edit collides with a referenced closure identity: " + p)
                        if e.get("kind") == "restore":
                            k = [k for k in uni.defs if uni.file_of(k) == p]
                            if not k:
                                raise InvalidScenario("restore of unknown file")
                            w.write(p, w.texts[k[0]])
                        else:
                            w.apply_edit(e)
                        kinds.add(e.get("kind", "?").split(":")[0] + ":" + e.get("kind", "?").split(":")[-1])
                        if any(p.startswith(s + "/") for s in scanned):
                            listed += 1
                        if e.get("kind") == "badname":
                            badname = True
                res = w.run_read(op)
                results.append(res)
                if res["ok"]:
                    c = w.canon_out(res)
                else:
                    ei = exc_info(res["exc"])
                    c = {"err": ei.get("cat"), "cls": ei.get("cls"), "path": w.rel(ei["path"]) if ei.get("path") else None, "line": ei.get("line")}
                canons.append(digest(c))
                # which of several malformed names is reported first depends on set iteration order inside the reader;
                # any of them is an allowed outcome, so the event log records the class only
                bn = {e["path"] for b in scn["edits"][:i] for e in b if e.get("kind") == "badname"} if i else set()
                is_bn = (not res["ok"]) and c.get("path") is not None and (c["path"] in bn or any(c["path"] == p0.rsplit("/", 1)[0] for p0 in bn))
                out.obs.append([i, "badname" if is_bn else canons[-1], "ok" if res["ok"] else classify_exc(res["exc"])])
                out.stats["reads"] += 1
                # print handler must never see an out-of-closure directive
                for (pp, ln, txt) in res["prints"]:
                    if F.OUTMARK in txt or w.rel(pp) not in closure_files:
                        out.fail("C19.no-print", "read %d: print handler received %r from %s" % (i, txt[:80], w.rel(pp)))
                opened = [p for p in w.open_logs[-1] if p not in closure_files]
                out.stats["out_of_closure_files_opened"] += len(opened)
            # first read against the model
            r0 = results[0]
            if not closure_err:
                if not r0["ok"]:
                    out.fail("C19.invariance", "read 0 (unedited workspace) rejected: %s: %s" % (type(r0["exc"]).__name__, r0["exc"]), "baseline-rejected:" + type(r0["exc"]).__name__)
                else:
                    got = sorted(str(t) for t in (r0["direct"] + (r0["transitive"] or [])))
                    want = sorted(closure) if not is_rn else sorted(targets)
                    if got != want:
                        out.fail("C19.invariance", "read 0: got %s, model %s" % (got, want), "baseline-differs")
            else:
                if r0["ok"]:
                    out.fail("C19.invariance", "read 0: error planted inside the closure but the call returned", "closure-error-ignored")
            for i in range(1, len(canons)):
                if canons[i] != canons[0]:
                    r = results[i]
                    if badname and not r["ok"] and classify_exc(r["exc"]) == "IDE":
                        ei = exc_info(r["exc"])
                        bad_paths = {e["path"] for b in scn["edits"][:i] for e in b if e.get("kind") == "badname"}
                        if ei.get("path") and w.rel(ei["path"]) in bad_paths:
                            out.stats["badname_reported"] += 1
                            continue
                        if ei.get("path") and any(w.rel(ei["path"]) == p.rsplit("/", 1)[0] for p in bad_paths):
                            out.stats["badname_reported"] += 1
                            continue
                        out.fail("C19.name-only", "read %d: after adding a malformed file name the call raised %s at %s, which is not that file" % (i, ei.get("cls"), ei.get("path")))
                        continue
                    what = "returned" if r["ok"] else "raised %s: %s" % (type(r["exc"]).__name__, str(r["exc"])[:300])
                    base = "returned" if results[0]["ok"] else "raised %s" % type(results[0]["exc"]).__name__
                    out.fail("C19.invariance", "read %d differs from read 0 after out-of-closure edits %s: read 0 %s, read %d %s" % (
                        i, [e.get("kind") for b in scn["edits"][:i] for e in b], base, i, what),
                        "changed:" + ("ok" if r["ok"] else type(r["exc"]).__name__))
            if scn.get("overlay"):
                self._overlay(out, w, scn["overlay"])
            out.nontrivial = listed > 0
            out.shape = digest([scn["reads"][0]["op"], min(listed, 4), sorted({k.split(":")[0] for k in kinds}), sorted(kinds)[:1], closure_err, len(uni.roots)])
            for k in kinds:
                out.stats["fault:" + k] += 1
            out.stats["faults_reached(listed by reader)"] += listed
            out.stats["closure_error_runs"] += 1 if closure_err else 0
        finally:
            w.close()
        return out


def _overlay(self, out, w, ov: dict) -> None:
    """Two directories hold the same root namespace (an overlay above a vendored upstream copy) with a file at the same relative
    path; the target is given relative to the namespace, so it is the copy under the FIRST listed root (documented: the order of the
    root list matters). The copy under the other root is not in the closure: whatever its text, the result is the same."""
    import os
    from ..worlds.workspace import classify_exc
    dirs = {"a": "w/ov/%s/ovl_ns" % ov["dirs"][0], "b": "w/ov/%s/ovl_ns" % ov["dirs"][1]}
    rel = "sub/Thing.1.0.dsdl" if ov["deep"] else "Thing.1.0.dsdl"
    w.write(dirs["a"] + "/" + rel, "uint8 first_listed_value\n@sealed\n")
    texts = {"valid": "uint16 other_copy_value\nuint16 more\n@sealed\n", "garbage": "%%% not dsdl at all\n", "rule": "uint8 a\nuint8 a\n@sealed\n", "print": "@print 77\nuint32 x\n@sealed\n",
             "same": "uint8 first_listed_value\n@sealed\n"}
    out.stats["overlay_runs"] += 1
    for step in ov["steps"]:
        w.write(dirs["b"] + "/" + rel, texts[step])
        roots = [{"p": dirs["a"]}, {"p": dirs["b"]}]
        res = w.run_read({"op": "rf", "files": [{"p": "ovl_ns/" + rel, "st": "raw"}], "roots": roots, "lookups": [], "key": None, "cwd": ov["cwd"]})
        out.stats["reads"] += 1
        out.obs.append(["overlay", step, "ok" if res["ok"] else classify_exc(res["exc"])])
        if not res["ok"]:
            out.fail("C19.invariance", "overlay: the target (relative path, roots %s listed in this order) was read with the OTHER root's copy holding %s text; the call raised %s: %s" % (
                list(ov["dirs"]), step, type(res["exc"]).__name__, str(res["exc"])[:200]), "overlay:" + type(res["exc"]).__name__)
            continue
        got = [(str(t), [f.name for f in t.fields]) for t in res["direct"]]
        name = "ovl_ns.sub.Thing.1.0" if ov["deep"] else "ovl_ns.Thing.1.0"
        if got != [(name, ["first_listed_value"])] or res["transitive"] or res["prints"]:
            out.fail("C19.invariance", "overlay: roots %s listed in this order, other copy holds %s text: got %s (prints %s), expected the copy under the first listed root" % (
                list(ov["dirs"]), step, got, res["prints"][:1]), "overlay-differs")
        elif not os.path.samefile(str(res["direct"][0].source_file_path), w.abs(dirs["a"] + "/" + rel)):
            out.fail("C19.invariance", "overlay: the type comes from %s, not from the first listed root" % w.rel(res["direct"][0].source_file_path), "overlay-source")


C19._overlay = _overlay


def uni_text_placeholder() -> str:
    return ""


CHECK = C19()
