"""C11 - port-ID and minor-version consistency rules hold for every set of definitions (World W)."""
from __future__ import annotations
import random
from ..core.scenario import digest
from ..model import types as T
from ..model.namespace import Universe
from .base import Check, Outcome, InvalidScenario
from . import wcommon as W


def body(rng: random.Random, nbytes: int, sealed: bool, extent: int | None) -> dict:
    items = [["f", ["u", 8, "s"], "f%d" % i] for i in range(nbytes)]
    if rng.random() < 0.3:
        # the rules speak of subjects and services; whether a message is a structure or a union is irrelevant to them
        items = [["f", ["arr", ["u", 8, "s"], max(1, nbytes - 1)], "bulk"], ["f", ["u", 8, "s"], "small"]] + ([["f", ["bool"], "flag"]] if rng.random() < 0.5 else [])
        return {"union": True, "hdr": None, "items": items, "seal": "sealed" if sealed else extent}
    return {"union": False, "hdr": None, "items": items, "seal": "sealed" if sealed else extent}


class C11(Check):
    PROP = "C11"
    RULE = ("each run = families of 2-7 definitions over 1-3 names in a target root, a lookup root and (sometimes) a second "
            "directory of the same root namespace: majors incl. 0, several minors, message / service, port-ID absent / equal / "
            "different / added / removed across minors, shared between names, sealed vs delimited, equal / different extents "
            "(request and response separately); some lookup definitions are referenced (inside the closure), others not. "
            "Read via read_namespace of each root and read_files of subsets. Three-valued model verdict (must reject / must "
            "accept / open for a direct port-ID colliding with a transitive one). distinct = hash of (sorted problem kinds, "
            "verdict, read kind, where the conflicting definitions live); non-trivial = at least two definitions share a name "
            "or a port-ID")
    RULE = RULE + "; " + 'round 8: message bodies are unions as well as structures'
    TIERS = {"quick": {"runs": 2400, "budget_s": 45}, "thorough": {"runs": 100000, "budget_s": 900}}

    def generate(self, rng: random.Random, r: int, tier: str) -> dict:
        split = rng.random() < 0.25
        roots = [{"dir": "w/d0/ra", "name": "ra", "defs": []}, {"dir": "w/d1/rb", "name": "rb", "defs": []}]
        if split:
            roots.append({"dir": "w/d2/ra", "name": "ra", "defs": []})
        names = [("ra", "X"), ("ra", "Y"), ("rb", "P"), ("rb", "Q")]
        rng.shuffle(names)
        names = names[: rng.randint(1, 3)]
        if rng.random() < 0.2:
            # a second type whose name differs from an existing one only by letter case (legal on a case-sensitive file system):
            # for the port-ID rules these are two different names
            rn0, sh0 = names[0]
            names.append((rn0, sh0.lower()))
        if rng.random() < 0.2:
            # a type in a nested namespace that is named like another type, with the short name Request / Response (a service's
            # sections are implicit types of those names): for the rules these are different full names
            rn0, sh0 = names[0]
            if "." not in sh0:
                names.append((rn0, sh0 + "." + rng.choice(["Request", "Response", "request", "Req"])))
        mports = [0, 0, 6144, 7167, 8191]
        sports = [0, 0, 256, 511]
        used = set()
        used_ci = set()
        for (rn, short) in names:
            nver = rng.randint(1, 4)
            kind0 = rng.random() < 0.3
            base_port = rng.choice([None, "p", "p"])
            if rng.random() < 0.5:
                majors = [rng.choice([0, 1, 1, 2])] * nver  # several minors under one major
            else:
                majors = [rng.choice([0, 0, 1, 1, 2]) for _ in range(nver)]
            base_sealed = rng.random() < 0.5
            base_n = rng.randint(0, 3)
            base_ext = 8 * rng.randint(base_n, base_n + 4)
            wide_minors = rng.random() < 0.25  # minors with different digit counts (9 vs 10, 3 vs 25, 20 vs 100)
            for M in majors:
                m = rng.choice([2, 3, 9, 10, 11, 20, 25, 99, 100, 101, 255]) if wide_minors else rng.randint(0, 4)
                if (M, m) == (0, 0) or (rn, short, M, m) in used or (rn, short.lower(), M, m) in used_ci:
                    continue  # (names that differ only by letter case must not share a version)
                used.add((rn, short, M, m))
                used_ci.add((rn, short.lower(), M, m))
                svc = kind0 if rng.random() < 0.85 else not kind0
                # mostly consistent with the family, sometimes not
                sealed = base_sealed if rng.random() < 0.8 else not base_sealed
                n = base_n if (sealed and rng.random() < 0.8) else rng.randint(0, 4)
                ext = base_ext if rng.random() < 0.75 else 8 * rng.randint(n, n + 6)
                if not sealed and ext < 8 * n:
                    ext = 8 * n
                secs = [body(rng, n, sealed, ext)]
                if svc:
                    n2 = rng.randint(0, 3)
                    s2 = rng.random() < 0.6
                    secs.append(body(rng, n2, s2, 8 * (n2 + rng.choice([0, 0, 2]))))
                port = None
                pr = rng.random()
                pool = sports if svc else mports
                if base_port == "p":
                    port = pool[0] if pr < 0.6 else (rng.choice(pool) if pr < 0.8 else None)
                elif pr < 0.15:
                    port = rng.choice(pool)
                d = {"name": "%s.%s" % (rn, short), "ver": [M, m], "port": port, "ext": "dsdl", "dep": False, "secs": secs}
                cands = [i for i, r0 in enumerate(roots) if r0["name"] == rn]
                roots[rng.choice(cands)]["defs"].append(d)
        if rng.random() < 0.15:
            # a "gap" family: three minors under one major whose port-ID is present / absent / present. Every adjacent pair
            # in (newest-first) order is fine or not depending on direction, and the offending pair (oldest, middle) is not
            # adjacent in all list orders - the rule has to be checked for every pair, not for neighbours
            M = rng.choice([0, 1, 3])
            ms = sorted(rng.sample(range(0, 9), 3))
            if (M, ms[0]) == (0, 0):
                ms[0] = 1 if 1 not in ms else ms[0]
                ms = sorted(set(ms))
            if len(ms) == 3 and (M, ms[0]) != (0, 0):
                svc = rng.random() < 0.3
                P = rng.choice(sports if svc else mports)
                pattern = rng.choice([[P, None, P], [P, None, P], [None, P, None], [P, P, None], [None, None, P]])
                host = rng.choice([i for i, r0 in enumerate(roots) if r0["name"] == "ra"])
                for m, port in zip(ms, pattern):
                    secs = [body(rng, 1, True, None)] + ([body(rng, 0, True, None)] if svc else [])
                    roots[host]["defs"].append({"name": "ra.Gap", "ver": [M, m], "port": port, "ext": "dsdl", "dep": False, "secs": secs})
                if not svc:
                    roots[host]["defs"].append({"name": "ra.RefGap", "ver": [1, 0], "port": None, "ext": "dsdl", "dep": False,
                                                "secs": [{"union": False, "hdr": None, "seal": "sealed", "items": [["f", ["ref", "ra.Gap", M, ms[0]], "g"]]}]})
        # referrers: put some lookup definitions into the closure of the other root
        alld = [(ri, d) for ri, r0 in enumerate(roots) for d in r0["defs"]]
        for i in range(rng.randint(0, 3)):
            msgs = [(ri, d) for ri, d in alld if len(d["secs"]) == 1]
            if not msgs:
                break
            ri, tgt = rng.choice(msgs)
            host_root = rng.choice([x for x in range(len(roots))])
            rn = roots[host_root]["name"]
            rport = None
            if rng.random() < 0.3:
                # the referrer carries a fixed port-ID too - sometimes the one of the definition it refers to (a collision between a
                # target and a definition that was first reached as its dependency)
                rport = tgt.get("port") if (tgt.get("port") is not None and rng.random() < 0.6) else rng.choice(mports)
            ref = {"name": "%s.Ref%d" % (rn, i), "ver": [1, 0], "port": rport, "ext": "dsdl", "dep": False,
                   "secs": [{"union": False, "hdr": None, "seal": "sealed", "items": [["f", ["ref", tgt["name"], tgt["ver"][0], tgt["ver"][1]], "r"]]}]}
            roots[host_root]["defs"].append(ref)
        fams = {}
        for ri, d in alld:
            if len(d["secs"]) == 1:
                fams.setdefault((d["name"], d["ver"][0]), []).append((ri, d))
        multi = [v for v in fams.values() if len(v) >= 2]
        if multi and rng.random() < 0.5:
            # one referrer per minor version of a family (two users pinned to different minors of the same type)
            fam = rng.choice(multi)
            for j, (ri, tgt) in enumerate(fam[:3]):
                rn = roots[0]["name"]
                roots[0]["defs"].append({"name": "%s.RefM%d" % (rn, j), "ver": [1, 0], "port": None, "ext": "dsdl", "dep": False,
                                         "secs": [{"union": False, "hdr": None, "seal": "sealed", "items": [["f", ["ref", tgt["name"], tgt["ver"][0], tgt["ver"][1]], "r"]]}]})
        if not any(r0["defs"] for r0 in roots):
            roots[0]["defs"].append({"name": "ra.Solo", "ver": [1, 0], "port": None, "ext": "dsdl", "dep": False, "secs": [body(rng, 1, True, None)]})
        ws = {"roots": [r0 for r0 in roots]}
        return {"ws": ws, "read_seed": rng.randrange(1 << 30)}

    def execute(self, scn: dict) -> Outcome:
        out = Outcome()
        w = self._phase(scn, scn["ws"], out, None, "")
        try:
            # history: the same files are revised in place (same names and versions; one section's sealing / extent or one
            # port-ID changes, which can make a conforming family violating or the other way round) and read again in the same
            # process: each verdict is about the set of definitions as it is now
            ws2 = revise_family(scn["ws"], scn["read_seed"])
            if ws2 is not None:
                out.stats["revised_in_place"] += 1
                self._phase(dict(scn, read_seed=scn["read_seed"] ^ 0x5A5A), ws2, out, w, " (after the files were revised in place)")
        finally:
            w.close()
        return out

    def _phase(self, scn: dict, ws: dict, out: Outcome, w, tag: str):
        from ..worlds.workspace import World, classify_exc
        uni = Universe(ws)
        if uni.dups:
            raise InvalidScenario("duplicate keys")
        if not uni.defs:
            raise InvalidScenario("empty")
        rng = random.Random(scn["read_seed"])
        nroots = len(ws["roots"])
        reads = []
        for ri in range(nroots):
            if ws["roots"][ri]["defs"]:
                look = [x for x in range(nroots) if x != ri and rng.random() < 0.85]
                reads.append(W.rn_op(rng, uni, ri, look, allow_unreg=True))
        keys = list(uni.defs)
        for n in range(3):
            targets = rng.sample(keys, rng.randint(1, min(4, len(keys))))
            if n == 2:
                # referrers and the newest minor of each family as targets: older minors are reached transitively only
                newest = {}
                for k in keys:
                    d0 = uni.defs[k]
                    fam = (d0["name"], d0["ver"][0])
                    if fam not in newest or uni.defs[newest[fam]]["ver"][1] < d0["ver"][1]:
                        newest[fam] = k
                targets = sorted(set(newest.values()) | {k for k in keys if ".Ref" in k})
                gap = sorted((k for k in keys if k.startswith("ra.Gap.")), key=lambda k: uni.defs[k]["ver"][1])
                if gap and rng.random() < 0.7:
                    targets = gap[1:] + [k for k in keys if k.startswith("ra.RefGap.")]
                else:
                    targets = rng.sample(targets, rng.randint(1, len(targets)))
            troots = {uni.root_of[k] for k in targets}
            op = W.rf_op(rng, uni, targets, [x for x in range(nroots) if x not in troots], allow_unreg=True)
            for a in op["roots"]:
                a["st"] = "abs" if a["st"] == "name" else a["st"]
            reads.append(op)
        refs_only = [k for k in keys if ".Ref" in k]
        if len(refs_only) >= 2:
            # only the referrers are targets: every family member is reached as a dependency - the rules hold among those too
            troots = {uni.root_of[k] for k in refs_only}
            op = W.rf_op(rng, uni, refs_only, [x for x in range(nroots) if x not in troots], allow_unreg=True)
            for a in op["roots"]:
                a["st"] = "abs" if a["st"] == "name" else a["st"]
            reads.append(op)
        if w is None:
            w = World({"ws": ws, "symlinks": W.symlinks_for(ws)})
        else:
            import os, shutil
            from ..model.render import render
            for r0 in uni.roots:
                shutil.rmtree(w.abs(r0["dir"]), ignore_errors=True)
                os.makedirs(w.abs(r0["dir"]), exist_ok=True)
            for ri0, d0 in uni.all:
                w.write(uni.file_of_def(ri0, d0), render(d0, None)[0])
        if True:
            names = [d["name"] for d in uni.defs.values()]
            ports = [d["port"] for d in uni.defs.values() if d.get("port") is not None]
            out.nontrivial = len(set(names)) < len(names) or len(set(ports)) < len(ports)
            for i, op in enumerate(reads):
                targets, vis = W.op_targets(uni, op)
                reasons, opens = W.model_verdict(uni, targets, vis, True)
                res = w.run_read(op)
                status = "ok" if res["ok"] else classify_exc(res["exc"])
                out.stats["reads"] += 1
                out.obs.append([i, status, sorted(reasons)[:2]])
                kinds = sorted({r.split(":")[0] for r in reasons})
                closure = uni.closure(targets, vis)
                where = sorted({("direct" if k in targets else "transitive") for r in reasons for k in r.split(":", 1)[-1].split("/") if k in closure})
                out.shapes.append(digest([kinds, op["op"], where, bool(opens)]))
                if reasons:
                    out.stats["must_reject"] += 1
                    for k in kinds:
                        out.stats["rule:" + k] += 1
                    if res["ok"]:
                        out.fail("C11.reject", "read %d%s (%s of %s): model says reject (%s) but the call returned" % (i, tag, op["op"], targets, reasons[:3]), "accepted:" + "+".join(kinds))
                    elif status != "IDE":
                        out.fail("C11.reject", "read %d: rejected with %s: %s" % (i, type(res["exc"]).__name__, str(res["exc"])[:300]), "wrong-class:" + type(res["exc"]).__name__)
                elif opens:
                    out.stats["open_verdict"] += 1
                else:
                    out.stats["must_accept"] += 1
                    if not res["ok"]:
                        out.fail("C11.accept", "read %d%s (%s of %s): conforming set rejected: %s: %s" % (i, tag, op["op"], targets, type(res["exc"]).__name__, str(res["exc"])[:400]),
                                 "rejected:" + type(res["exc"]).__name__)
        return w


def revise_family(ws: dict, seed: int):
    """The same definitions with ONE change in a definition that has a sibling under the same name and major version: sealing
    flipped, extent changed, or port-ID set / removed / changed. Returns None if there is no such family."""
    import copy
    rng = random.Random(seed ^ 0xFA111)
    ws2 = copy.deepcopy(ws)
    defs = [d for r0 in ws2["roots"] for d in r0["defs"]]
    fam = [d for d in defs if sum(1 for x in defs if x["name"] == d["name"] and x["ver"][0] == d["ver"][0]) >= 2]
    if not fam:
        return None
    d = rng.choice(fam)
    sib = [x for x in defs if x is not d and x["name"] == d["name"] and x["ver"][0] == d["ver"][0]]
    how = rng.choice(["mode", "mode", "extent", "port", "copy-sibling"])
    si = rng.randrange(len(d["secs"]))
    s = d["secs"][si]
    nbytes = sum(1 for it in s["items"] if it[0] == "f")
    if how == "copy-sibling" and len(sib[0]["secs"]) == len(d["secs"]):
        # make it conform to a sibling (a violating family may become conforming)
        for a, b in zip(d["secs"], sib[0]["secs"]):
            a["items"], a["seal"], a["union"] = copy.deepcopy(b["items"]), b["seal"], b.get("union", False)
        d["port"] = sib[0].get("port") if rng.random() < 0.7 else d.get("port")
    elif how == "mode" or how == "copy-sibling":
        s["seal"] = 8 * (nbytes + rng.choice([0, 1, 2])) if s["seal"] == "sealed" else "sealed"
    elif how == "extent":
        s["seal"] = (s["seal"] + 8 * rng.choice([1, 2])) if isinstance(s["seal"], int) else 8 * (nbytes + 1)
    else:
        pool = [0, 256, 511] if len(d["secs"]) == 2 else [0, 6144, 7167, 8191]
        d["port"] = rng.choice([p0 for p0 in pool + [None] if p0 != d.get("port")])
    return ws2


CHECK = C11()
