"""C06 - serialize/deserialize round-trip and produce the Specification's wire encoding (World X, fault-free)."""
from __future__ import annotations
import random
from ..core.scenario import digest
from ..model import gen as G
from ..model import types as T
from ..model import refcodec as R
from ..model import valgen as V
from .base import Check, Outcome, InvalidScenario
from . import wcommon as W


def add_directed_offset_def(rng: random.Random, ws: dict):
    """A directed skeleton: a variable-length array of sub-byte elements whose shortest and longest representations are
    byte-aligned (interior ones are not), followed by a nested composite (inter-field padding!) and a sub-byte tail.
    Returns (root index, definition index) or None."""
    root = ws["roots"][0]
    msgs = [d for d in root["defs"] if len(d["secs"]) == 1 and not d.get("dep")]
    if not msgs or (root["name"] + ".Off").lower() in {d["name"].lower() for d in root["defs"]}:
        return None
    b, cap = rng.choice([(1, 8), (2, 4), (4, 2), (12, 2), (3, 8), (1, 16), (7, 8)])
    m = rng.choice(msgs)
    ref = ["ref", m["name"], m["ver"][0], m["ver"][1]]
    items = [["f", ["var", ["u", b, "s"] if b > 1 else ["bool"], cap], "flags"], ["f", rng.choice([ref, ["arr", ref, 2], ["var", ref, 2]]), "inner"], ["f", ["u", rng.choice([4, 5, 1]), "t"], "tail"]]
    if rng.random() < 0.4:
        items.insert(0, ["f", rng.choice([["u", 8, "s"], ["u", 3, "s"], ["u", 5, "t"]]), "head"])
    root["defs"].append({"name": root["name"] + ".Off", "ver": [1, 0], "port": None, "ext": "dsdl", "dep": False,
                         "secs": [{"union": False, "hdr": None, "items": items, "seal": "sealed"}]})
    return 0, len(root["defs"]) - 1


def gen_wire_ws(rng: random.Random, directed: float = 0.3, **kw) -> dict:
    o = dict(roots=(1, 2), defs=(2, 6), p_ref=0.6, p_service=0.15, p_union=0.35, p_delim=0.45, p_pad=0.25, p_const=0.1, p_doc=0.0,
             p_family=0.15, p_dep=0.05, p_port=0.0, max_fields=5, max_cap=4)
    o.update(kw)
    ws = G.gen_workspace(rng, **o)
    if rng.random() < directed:
        add_directed_offset_def(rng, ws)
    if rng.random() < 0.25:
        # one array of primitives at the 8 -> 16 bit length-prefix boundary (elements are actually sent / torn / flipped)
        sites = [it[1] for r in ws["roots"] for d in r["defs"] for s in d["secs"] for it in s["items"]
                 if it[0] == "f" and it[1][0] in ("var", "arr") and it[1][1][0] in ("bool", "u", "i", "byte")]
        if sites:
            import copy
            from ..model import rules
            from ..model.namespace import Universe
            backup = copy.deepcopy(ws)
            rng.choice(sites)[2] = rng.choice([255, 256, 257, 300])
            _refit_extents(ws)
            if rules.workspace_problems(Universe(ws)):
                return backup  # e.g. the enlarged definition has a sibling version whose extent must stay equal
    return ws


def _refit_extents(ws: dict) -> None:
    """After a capacity was enlarged: delimited sections keep at least their longest representation (in dependency order)."""
    alld = [d for r in ws["roots"] for d in r["defs"]]
    order = {k: i for i, k in enumerate(ws.get("order", []))}
    # creation order = dependency order (a definition only refers to definitions created before it); definitions added later
    # by the checks (directed skeletons) come last
    for d in sorted(alld, key=lambda x: order.get(T.def_key(x), len(order))):
        for si, s in enumerate(d["secs"]):
            if isinstance(s.get("seal"), int) and not isinstance(s.get("seal"), bool):
                old = s["seal"]
                s["seal"] = "sealed"
                inner = T.Sec(T.Resolver({T.def_key(x): x for x in alld}), d, si).inner_extent
                s["seal"] = max(old, inner)


def permuted_revision(ws: dict, seed: int):
    """Same definitions (names, versions, kinds, sealing) with the fields of every structure permuted and two field names
    swapped; returns None if nothing could be changed."""
    import copy
    rng = random.Random(seed ^ 0x5EED)
    ws2 = copy.deepcopy(ws)
    changed = False
    for r in ws2["roots"]:
        for d in r["defs"]:
            for s in d["secs"]:
                idx = [i for i, it in enumerate(s["items"]) if it[0] == "f"]
                if len(idx) >= 2:
                    perm = idx[:]
                    rng.shuffle(perm)
                    if perm != idx:
                        items = list(s["items"])
                        for a, b in zip(idx, perm):
                            items[a] = s["items"][b]
                        s["items"] = items
                        changed = True
                    # swap the names of two fields (the name -> type mapping changes, the set of names does not)
                    fs = [it for it in s["items"] if it[0] == "f"]
                    a, b = rng.sample(fs, 2)
                    if a[1] != b[1]:
                        a[2], b[2] = b[2], a[2]
                        changed = True
    return ws2 if changed else None


def in_set(real_bls, node, L: int, limit: int = 20000) -> bool:
    from ..worlds.realcanon import _cheap_for_sut
    if node.work() <= limit and _cheap_for_sut(node):
        from ..worlds.realcanon import safe_expand
        es = safe_expand(real_bls)
        if es is not None:
            return L in es
    if not (real_bls.min <= L <= real_bls.max):
        return False
    return all((L % m) in set(real_bls % m) for m in (8, 32, 64))


class C06(Check):
    PROP = "C06"
    CRASH_ORACLE = "C06.roundtrip"
    WORLD = "X"
    RULE = ("each run = one generated namespace (all primitive widths and cast modes, fixed / variable arrays, utf8 / byte strings, "
            "structures with padding, unions, sealed and delimited composites, nesting <= 4, services) read by the real front end; "
            "for every message / request / response type 12-40 seeded values (boundary and out-of-range numbers, NaN / inf / "
            "subnormal / -0.0, empty and full arrays, multi-byte UTF-8, omitted fields, relaxed forms, with and without the top-"
            "level delimiter header); then, in the same process, a second revision of the namespace with permuted / renamed fields under the "
            "same type names (nothing may be remembered between calls). Three parties: writer = pydsdl.serialize, reader = pydsdl.deserialize, reference peer = "
            "independent Specification codec. distinct = hash of (type-shape signature: kinds of fields incl. nesting, union, "
            "delimited; value features); non-trivial = the type has a sub-byte field or a nested composite or a variable array")
    RULE = RULE + "; " + 'rounds 7-8: values also (de)serialized with the type rebuilt through the constructors with constants between the fields; serialize / deserialize run under the host configuration seam (DEBUG logging, warnings as errors)'
    TIERS = {"quick": {"runs": 480, "budget_s": 50}, "thorough": {"runs": 40000, "budget_s": 900}}
    ASSUMPTIONS = ["struct (IEEE-754 rounding of finite floats) is trusted on both sides", "an infinite input for a *saturated* float field is not generated (left open by the property text)",
                   "float inputs for integer fields are generated with integral values only (a non-integral float would need a rounding rule the property does not state); ambiguous bare-dict relaxed forms are not generated"]

    def generate(self, rng: random.Random, r: int, tier: str) -> dict:
        return {"ws": gen_wire_ws(rng), "value_seed": rng.randrange(1 << 30), "nvalues": rng.choice([12, 20, 40])}

    def execute(self, scn: dict) -> Outcome:
        out = Outcome()
        W.validate_ws(scn["ws"])
        self._run_node(scn, scn["ws"], out, "")
        # history: the same process now meets a *revision* of the namespace in which the fields of some definitions are
        # permuted / renamed (same names and versions, mostly the same length sets, different layout). Nothing may be
        # remembered from the first revision (pydsdl keeps no state between calls; type objects are compared by name,
        # version and length set only, so any cache keyed on them would collide here).
        ws2 = permuted_revision(scn["ws"], scn["value_seed"])
        if ws2 is not None:
            try:
                W.validate_ws(ws2)
            except InvalidScenario:
                ws2 = None
        if ws2 is not None:
            out.stats["second_revision_in_same_process"] += 1
            self._run_node(scn, ws2, out, " (second revision)")
        return out

    def _run_node(self, scn: dict, ws: dict, out: Outcome, tag: str) -> None:
        from ..worlds.wire import Node, NodeError
        from ..worlds.workspace import hosted_library
        pydsdl = hosted_library(ws)  # the real module; serialize / deserialize run under this run's host process configuration
        out.stats["host:debug_logging"] += int(pydsdl._env[0])
        out.stats["host:warnings_as_errors"] += int(pydsdl._env[1])
        try:
            node = Node(ws)
        except NodeError as ex:
            out.fail("C06.roundtrip", "valid namespace%s rejected by the front end: %s" % (tag, ex), "frontend-rejected")
            return
        try:
            res = node.uni.res
            mixed_cache: dict = {}
            for key, si, real, sec in node.sections():
                feats = type_features(res, sec)
                if feats & {"subbyte", "nested", "var"}:
                    out.nontrivial = True
                out.shapes.append(digest(sorted(feats)))
                out.stats["types"] += 1
                inner_real = real.inner_type
                for i in range(scn["nvalues"]):
                    rng = random.Random(scn["value_seed"] * 1000003 + i * 7919 + len(key) + si)
                    v = V.gen_composite(rng, sec, in_range=rng.random() < 0.4, p_omit=0.2)
                    where = "%s[%d]%s value #%d %r" % (key, si, tag, i, v)
                    ref_bytes, marks = R.encode(res, key, si, v, with_header=False)
                    if rng.random() < 0.25:
                        # history: a *rejected* call (invalid value: the error surfaces part-way through the object) right before
                        # the valid one, in the same process - nothing of the failed attempt may leak into the next result
                        bad = poison_value(rng, sec, fill_defaults(res, sec, v))
                        if bad is not None:
                            try:
                                pydsdl.serialize(real, bad)
                                out.stats["poison_accepted"] += 1
                            except Exception:
                                out.stats["poison_rejected"] += 1
                    import copy as _copy
                    snap = _copy.deepcopy(v)
                    try:
                        real_bytes = pydsdl.serialize(real, v)
                    except Exception as ex:
                        out.fail("C06.bytes", "%s: serialize raised %s: %s" % (where, type(ex).__name__, ex), "serialize-raised:" + type(ex).__name__)
                        continue
                    if not same_object_graph(v, snap):
                        # the value is the caller's: a call that rewrites it changes what every later call with the same object
                        # (another type, another revision) encodes
                        out.fail("C06.bytes", "%s: serialize() modified the caller's value object: now %r" % (where, v), "argument-modified")
                        v = snap
                    out.stats["messages"] += 1
                    if real_bytes != ref_bytes:
                        out.fail("C06.bytes", "%s: pydsdl %s, reference peer %s" % (where, real_bytes.hex(), ref_bytes.hex()), "bytes:" + first_diff_kind(res, sec, marks, real_bytes, ref_bytes))
                        continue
                    want = R.norm(R.decode(res, key, si, ref_bytes))
                    try:
                        back = pydsdl.deserialize(real, real_bytes)
                    except Exception as ex:
                        out.fail("C06.roundtrip", "%s: deserialize of own output raised %s: %s" % (where, type(ex).__name__, ex), "deserialize-raised:" + type(ex).__name__)
                        continue
                    if i % 4 == 1:
                        # the same type built through the public constructors with its constants placed between its fields: the
                        # wire format only depends on the fields and their order
                        try:
                            if (key, si) not in mixed_cache:
                                from ..worlds.values import rebuild
                                mixed_cache[(key, si)] = rebuild(real, "list", interleave=True)[0]
                            mx = mixed_cache[(key, si)]
                            mb = pydsdl.serialize(mx, v)
                            out.stats["interleaved_constructor_types"] += 1
                            if mb != ref_bytes:
                                out.fail("C06.bytes", "%s: with the type built through the constructor, constants between the fields: pydsdl %s, reference peer %s" % (where, mb.hex(), ref_bytes.hex()), "ctor-interleaved-bytes")
                            elif R.norm(pydsdl.deserialize(mx, ref_bytes)) != want:
                                out.fail("C06.roundtrip", "%s: with the type built through the constructor, constants between the fields: decode differs" % where, "ctor-interleaved-roundtrip")
                        except Exception as ex:
                            from .base import raised_inside_sut
                            if not raised_inside_sut(ex):
                                raise
                            out.fail("C06.bytes", "%s: type built through the constructor with constants between the fields: %s: %s" % (where, type(ex).__name__, ex), "ctor-interleaved-raised:" + type(ex).__name__)
                    if R.norm(back) != want:
                        out.fail("C06.roundtrip", "%s: bytes %s decode to %r, expected %r" % (where, real_bytes.hex(), back, want), "roundtrip")
                    elif i % 3 == 0 and real_bytes:
                        # the receiver's buffer is whatever its I/O layer hands out: a bytearray, or a memoryview with another item size
                        nb = len(real_bytes)
                        forms = [("bytearray", bytearray(real_bytes))]
                        if nb % 2 == 0:
                            forms.append(("memoryview-H", memoryview(bytearray(real_bytes)).cast("H")))
                        if nb % 4 == 0:
                            forms.append(("memoryview-I", memoryview(real_bytes).cast("I")))
                        forms.append(("memoryview-slice", memoryview(b"\xff" + real_bytes + b"\xee\xdd")[1:1 + nb]))
                        for nm, buf in forms:
                            try:
                                alt = R.norm(pydsdl.deserialize(real, buf))
                            except Exception as ex:
                                out.fail("C06.roundtrip", "%s: deserialize of the same octets carried by a %s raised %s: %s" % (where, nm, type(ex).__name__, ex), "roundtrip-buffer-raised:" + nm)
                                continue
                            out.stats["roundtrips_through_other_buffers"] += 1
                            if alt != want:
                                out.fail("C06.roundtrip", "%s: the same octets carried by a %s decode to %r, expected %r" % (where, nm, alt, want), "roundtrip-buffer:" + nm)
                    L = 8 * len(real_bytes)
                    if not in_set(inner_real.bit_length_set, sec.inner, L):
                        out.fail("C06.length-in-set", "%s: length %d bits is not an element of the (inner) bit_length_set" % (where, L), "length")
                    if not sec.sealed:
                        hb, _ = R.encode(res, key, si, v, with_header=True)
                        try:
                            rb = pydsdl.serialize(real, v, with_delimiter_header=True)
                            if rb != hb:
                                out.fail("C06.bytes", "%s (with header): pydsdl %s, reference %s" % (where, rb.hex(), hb.hex()), "bytes:header")
                            elif R.norm(pydsdl.deserialize(real, rb, with_delimiter_header=True)) != want:
                                out.fail("C06.roundtrip", "%s (with header): round trip differs" % where, "roundtrip:header")
                            if not in_set(real.bit_length_set, sec.node(), 8 * len(rb)):
                                out.fail("C06.length-in-set", "%s (with header): length %d not in bit_length_set" % (where, 8 * len(rb)), "length:header")
                        except Exception as ex:
                            out.fail("C06.bytes", "%s (with header): raised %s: %s" % (where, type(ex).__name__, ex), "header-raised:" + type(ex).__name__)
                    # omitted fields == explicit defaults
                    full = fill_defaults(res, sec, v)
                    if full != v:
                        out.stats["with_omitted_fields"] += 1
                        try:
                            fb = pydsdl.serialize(real, full)
                            if fb != real_bytes:
                                out.fail("C06.defaults", "%s: omitted fields encode differently from explicit zero / empty / first variant: %s vs %s" % (where, real_bytes.hex(), fb.hex()), "defaults")
                        except Exception as ex:
                            out.fail("C06.defaults", "%s: explicit defaults raised %s" % (where, type(ex).__name__), "defaults-raised")
                    av = V.alt_composite(rng, sec, v)
                    if not same_object_graph(av, v):
                        out.stats["alternative_container_forms"] += 1
                        try:
                            ab = pydsdl.serialize(real, av)
                            if ab != real_bytes:
                                out.fail("C06.bytes", "%s: the same value with other accepted container types (%r) encodes to %s instead of %s" % (where, av, ab.hex(), real_bytes.hex()), "bytes:container-form")
                        except Exception as ex:
                            out.fail("C06.bytes", "%s: the same value with other accepted container types (%r) raised %s: %s" % (where, av, type(ex).__name__, ex), "container-form-raised:" + type(ex).__name__)
                    rv = V.relax(rng, sec, v)
                    if rv is not None and rv != v:
                        out.stats["relaxed_forms"] += 1
                        rsnap = _copy.deepcopy(rv)
                        try:
                            xb = pydsdl.serialize(real, rv, relaxed=True)
                            if not same_object_graph(rv, rsnap):
                                out.fail("C06.relaxed", "%s: serialize(relaxed=True) modified the caller's value object %r: now %r" % (where, rsnap, rv), "argument-modified")
                            elif pydsdl.serialize(real, rv, relaxed=True) != xb:
                                out.fail("C06.relaxed", "%s: serializing the same relaxed object %r twice gives different bytes" % (where, rv), "relaxed-unstable")
                            if xb != real_bytes:
                                out.fail("C06.relaxed", "%s: relaxed form %r encodes to %s, explicit form to %s" % (where, rv, xb.hex(), real_bytes.hex()), "relaxed")
                        except Exception as ex:
                            out.fail("C06.relaxed", "%s: relaxed form %r raised %s: %s" % (where, rv, type(ex).__name__, ex), "relaxed-raised:" + type(ex).__name__)
            out.obs.append([len(node.types), out.stats["messages"]])
        finally:
            node.close()


def same_object_graph(a, b) -> bool:
    """Deep equality of two value objects incl. container types (list vs tuple vs dict), NaN-aware."""
    if type(a) is not type(b):
        return False
    if isinstance(a, dict):
        return list(a.keys()) == list(b.keys()) and all(same_object_graph(a[k], b[k]) for k in a)
    if isinstance(a, (list, tuple)):
        return len(a) == len(b) and all(same_object_graph(x, y) for x, y in zip(a, b))
    if isinstance(a, float):
        return (a != a and b != b) or (a == b and str(a) == str(b))
    return a == b


def poison_value(rng: random.Random, sec, full: dict):
    """An invalid variant of a fully spelled value: the *last* field that can be made invalid gets an over-long array, a
    wrong Python type or an unknown union variant (so that earlier fields are already written when the error surfaces)."""
    import copy
    if sec.union:
        return {"no_such_variant_": 0}
    bad = copy.deepcopy(full)
    names = [n for n, _t in sec.fields if n is not None]
    for n, t in reversed([(n, t) for n, t in sec.fields if n is not None]):
        if t[0] == "var" and t[1][0] not in ("utf8",):
            bad[n] = ([0] * (t[2] + 1)) if t[1][0] != "byte" else bytes(t[2] + 1)
            return bad
        if t[0] == "arr":
            bad[n] = []
            return bad
        if t[0] in ("u", "i", "f", "bool"):
            bad[n] = "not a number"
            return bad
        if t[0] == "ref":
            bad[n] = "not a dict"
            return bad
    return None


def type_features(res, sec, depth=0) -> set:
    f = set()
    if sec.union:
        f.add("union")
    if not sec.sealed:
        f.add("delimited")
    for n, t in sec.fields:
        f |= tfeat(res, t, depth)
    return f


def tfeat(res, t, depth) -> set:
    k = t[0]
    if k in ("arr", "var"):
        return {k} | tfeat(res, t[1], depth)
    if k == "ref":
        s = res.ref_sec(t)
        inner = type_features(res, s, depth + 1) if depth < 3 else set()
        return {"nested"} | {"n:" + x for x in inner if not x.startswith("n:")}
    if k == "void":
        return {"pad"}
    w = T.bits_of(t)
    out = {k}
    if w % 8:
        out.add("subbyte")
    return out


def fill_defaults(res, sec, v: dict) -> dict:
    if sec.union:
        return v
    out = {}
    for n, t in sec.fields:
        if n is None:
            continue
        if n in v:
            out[n] = fill_value(res, t, v[n])
        else:
            out[n] = R.default_value(res, t)
    return out


def fill_value(res, t, v):
    if t[0] == "ref":
        s = res.ref_sec(t)
        if s.union:
            (n, x), = v.items()
            return {n: fill_value(res, dict((a, b) for a, b in s.fields if a)[n], x)}
        return fill_defaults(res, s, v)
    if t[0] in ("arr", "var") and isinstance(v, list):
        return [fill_value(res, t[1], x) for x in v]
    return v


def first_diff_kind(res, sec, marks, a: bytes, b: bytes) -> str:
    if len(a) != len(b):
        return "length"
    for i, (x, y) in enumerate(zip(a, b)):
        if x != y:
            bit = i * 8
            last = "?"
            for p, off in marks:
                if off <= bit + 7:
                    last = p
            return "at:" + last.split(".")[-1].split("[")[0][:12]
    return "same"


CHECK = C06()
