"""C07 - deserialization is total and obeys implicit truncation / zero extension (World X; channel faults)."""
from __future__ import annotations
import random
from ..core.scenario import digest
from ..model import types as T
from ..model import refcodec as R
from ..model import valgen as V
from .base import Check, Outcome, InvalidScenario
from . import wcommon as W
from .c06 import gen_wire_ws, type_features


def make_faults(rng: random.Random, b: bytes, marks, ctl) -> list[list]:
    n = len(b)
    faults: list[list] = []
    cut_points = list(range(n + 1)) if n <= 48 else sorted(set([0, 1, n - 1, n] + [rng.randint(0, n) for _ in range(24)] + [min(n, (off + 7) // 8) for _p, off in marks][:24]))
    for i in cut_points:
        faults.append(["trunc_bytes", i])
    for z in (1, 2, 7, 64):
        faults.append(["zeros", z])
    for _ in range(2):
        faults.append(["junk", bytes(rng.randrange(256) for _ in range(rng.randint(1, 9))).hex()])
    if n:
        for _ in range(min(16, 8 * n)):
            faults.append(["flip", rng.randrange(8 * n)])
    for kind, pos, width, limit in ctl[:12]:
        if kind == "len":
            for v in (limit + 1, (1 << width) - 1):
                if v >= (1 << width):
                    continue
                faults.append(["set_bits", pos, width, v])
        elif kind == "tag":
            for v in (limit + 1, (1 << width) - 1):
                faults.append(["set_bits", pos, width, v])
        else:
            for v in (limit + 1, limit + 1000, (1 << width) - 1, 0, max(0, limit - 1)):
                faults.append(["set_bits", pos, width, v])
        # also flip bits inside the control item
        faults.append(["flip", pos + rng.randrange(width)])
    for _ in range(3):
        faults.append(["random", bytes(rng.randrange(256) for _ in range(rng.randint(0, max(4, n + 3)))).hex()])
    return faults


class C07(Check):
    PROP = "C07"
    CRASH_ORACLE = "C07.total"
    WORLD = "X"
    RULE = ("each run = one generated namespace read by the real front end; for every message / request / response type several "
            "valid representations (from the reference peer) are sent through a byte channel that injects: every byte prefix (torn "
            "write), prefixes landing inside length prefixes / union tags / delimiter headers / nested delimited payloads "
            "(positions from the reference peer's map), appended zeros, appended junk, single-bit flips, targeted over-capacity "
            "prefixes, out-of-range tags, oversized / undersized delimiter headers, random byte strings. Oracles: total (only "
            "SerDesError / ValueError), fixed point, agreement with the reference peer's decoder on value or rejection, "
            "truncation / zero-extension laws, no dependence on data outside the buffer (bytes / bytearray / memoryview slice). "
            "distinct = hash of (type features, fault kind, position class: inside prefix/tag/header/nested/after last field, "
            "outcome); non-trivial = the fault landed inside a multi-byte item or a nested object")
    RULE = RULE + "; " + 'rounds 7-8: deserialize / serialize run under the host configuration seam (DEBUG logging, warnings as errors)'
    TIERS = {"quick": {"runs": 320, "budget_s": 55}, "thorough": {"runs": 30000, "budget_s": 1200}}
    FAULTS_NOT_INJECTED = ["threads", "real sockets (the channel is an in-process function)"]

    def generate(self, rng: random.Random, r: int, tier: str) -> dict:
        return {"ws": gen_wire_ws(rng, defs=(2, 5)), "value_seed": rng.randrange(1 << 30), "nvalues": 3}

    def execute(self, scn: dict) -> Outcome:
        from .c06 import permuted_revision
        out = Outcome()
        W.validate_ws(scn["ws"])
        self._run_node(scn, scn["ws"], out)
        # history: a second revision of the namespace (same type names and versions, permuted / renamed fields) is decoded in
        # the same process; nothing may be remembered from the first one
        ws2 = permuted_revision(scn["ws"], scn["value_seed"])
        if ws2 is not None:
            try:
                W.validate_ws(ws2)
            except InvalidScenario:
                ws2 = None
        if ws2 is not None:
            out.stats["second_revision_in_same_process"] += 1
            self._run_node(dict(scn, nvalues=1), ws2, out, " (second revision)")
        return out

    def _run_node(self, scn: dict, ws: dict, out: Outcome, tag: str = "") -> None:
        from ..worlds.wire import Node, NodeError, apply_fault
        from ..worlds.workspace import hosted_library
        pydsdl = hosted_library(ws)  # the real module; serialize / deserialize run under this run's host process configuration
        out.stats["host:debug_logging"] += int(pydsdl._env[0])
        out.stats["host:warnings_as_errors"] += int(pydsdl._env[1])
        try:
            node = Node(ws)
        except NodeError as ex:
            raise InvalidScenario("front end rejected the namespace: %s" % ex)
        try:
            res = node.uni.res
            from ..worlds.realcanon import hostile_client
            out.stats["client_list_mutations"] += hostile_client(list(node.types.values()))
            for key, si, real, sec in node.sections():
                feats = type_features(res, sec)
                for hdr in ([False, True] if not sec.sealed else [False]):
                    for i in range(scn["nvalues"]):
                        rng = random.Random(scn["value_seed"] * 1000003 + i * 7919 + len(key) + si + (17 if hdr else 0))
                        v = V.gen_composite(rng, sec, in_range=True, p_omit=0.1)
                        b, marks, ctl = R.encode_ctl(res, key, si, v, with_header=hdr)
                        base = self._decode_both(out, pydsdl, real, res, key, si, b, hdr, "%s[%d]%s intact" % (key, si, tag))
                        for f in make_faults(rng, b, marks, ctl):
                            fb = apply_fault(b, f)
                            where = "%s[%d]%s%s value %r bytes %s fault %s -> %s" % (key, si, " +hdr" if hdr else "", tag, v, b.hex(), f, fb.hex())
                            got = self._decode_both(out, pydsdl, real, res, key, si, fb, hdr, where)
                            out.stats["messages"] += 1
                            out.stats["fault:" + f[0]] += 1
                            pos_class = self._pos_class(f, b, marks, ctl)
                            out.shapes.append(digest([sorted(x for x in feats if not x.startswith("n:")), f[0], pos_class, got[0]]))
                            if pos_class in ("ctl", "nested", "multibyte"):
                                out.nontrivial = True
                            # laws
                            if f[0] == "junk" and base[0] == "ok":
                                if got != base:
                                    out.fail("C07.trunc", "%s: bytes after a complete representation changed the result: %r vs %r" % (where, got, base), "trunc")
                            if f[0] == "zeros":
                                if base[0] == "ok" and got != base:
                                    out.fail("C07.zext", "%s: appending zero bytes changed the result: %r vs %r" % (where, got, base), "zext")
                            if f[0] == "trunc_bytes":
                                # b' = prefix; b' and b' + zeros decode alike unless a header then exceeds the available data
                                ext = fb + bytes(len(b) - len(fb) + 8)
                                got2 = self._decode_real(pydsdl, real, ext, hdr)
                                refk = self._ref(res, key, si, fb, hdr)
                                if got[0] == "ok" and got2 != got:
                                    out.fail("C07.zext", "%s: prefix decodes to %r but prefix + zeros to %r" % (where, got, got2), "zext-prefix")
                                if got[0] == "rej" and refk[0] == "rej" and refk[1] != "delimiter-header" and got2[0] != "rej":
                                    out.fail("C07.reject", "%s: prefix rejected (%s) but prefix + zeros accepted" % (where, refk[1]), "reject-unstable")
                            if f[0] == "set_bits":
                                kind = [c for c in ctl if c[1] == f[1]][0]
                                bad = (kind[0] == "len" and f[3] > kind[3]) or (kind[0] == "tag" and f[3] > kind[3])
                                if bad and got[0] == "ok":
                                    # the targeted item may be unreachable if an enclosing header was... no: only this item changed
                                    out.fail("C07.reject", "%s: %s value %d above the limit %d was accepted: %r" % (where, kind[0], f[3], kind[3], got), "clamped:" + kind[0])
                                out.stats["targeted:" + kind[0]] += 1
            out.obs.append([out.stats["messages"]])
        finally:
            node.close()

    def _pos_class(self, f, b, marks, ctl) -> str:
        if f[0] == "set_bits":
            return "ctl"
        if f[0] == "trunc_bytes":
            bit = f[1] * 8
        elif f[0] == "flip":
            bit = f[1] % max(1, 8 * len(b))
        else:
            return "tail"
        for kind, pos, width, _l in ctl:
            if pos <= bit < pos + width:
                return "ctl"
        hdrs = [(pos + width, pos + width + 8 * lim) for kind, pos, width, lim in ctl if kind == "hdr"]
        if any(a <= bit < e for a, e in hdrs):
            return "nested"
        if bit >= 8 * len(b):
            return "end"
        starts = sorted(off for _p, off in marks)
        for a, e in zip(starts, starts[1:] + [8 * len(b)]):
            if a < bit < e and e - a > 8:
                return "multibyte"
        return "boundary"

    def _decode_real(self, pydsdl, real, data: bytes, hdr: bool):
        try:
            o = pydsdl.deserialize(real, data, with_delimiter_header=hdr) if hdr else pydsdl.deserialize(real, data)
            return ("ok", R.norm(o))
        except (pydsdl.SerDesError, ValueError) as ex:
            return ("rej", type(ex).__name__)
        except Exception as ex:  # noqa
            return ("crash", type(ex).__name__ + ": " + str(ex)[:200])

    def _ref(self, res, key, si, data: bytes, hdr: bool):
        try:
            return ("ok", R.norm(R.decode(res, key, si, data, with_header=hdr)))
        except R.Reject as rj:
            return ("rej", rj.kind)

    def _decode_both(self, out, pydsdl, real, res, key, si, data: bytes, hdr: bool, where: str):
        got = self._decode_real(pydsdl, real, data, hdr)
        if got[0] == "crash":
            out.fail("C07.total", "%s: deserialize raised %s" % (where, got[1]), "crash:" + got[1].split(":")[0])
            return got
        ref = self._ref(res, key, si, data, hdr)
        if got[0] != ref[0] or (got[0] == "ok" and got[1] != ref[1]):
            out.fail("C07.peer", "%s: pydsdl %r, reference peer %r" % (where, got, ref), "peer:%s/%s" % (got[0], ref[0] if ref[0] == "ok" else ref[1]))
        if got[0] == "ok":
            # fixed point
            try:
                o = pydsdl.deserialize(real, data, with_delimiter_header=hdr) if hdr else pydsdl.deserialize(real, data)
                again = pydsdl.serialize(real, o, with_delimiter_header=hdr) if hdr else pydsdl.serialize(real, o)
                o2 = pydsdl.deserialize(real, again, with_delimiter_header=hdr) if hdr else pydsdl.deserialize(real, again)
                if R.norm(o2) != R.norm(o):
                    out.fail("C07.fixpoint", "%s: returned object %r re-serializes to %s which decodes to %r" % (where, o, again.hex(), o2), "fixpoint")
            except Exception as ex:  # noqa
                out.fail("C07.fixpoint", "%s: returned object %r cannot be serialized again: %s: %s" % (where, got[1], type(ex).__name__, ex), "fixpoint-raised:" + type(ex).__name__)
        # isolation / buffer form: the byte string is the sequence of octets of the buffer, whatever object carries it - bytes,
        # bytearray, a memoryview into a larger buffer with hostile neighbours, or a memoryview with another item format or shape
        big = b"\xa5\x5a\xff" + data + b"\xff\x00\xc3\x3c"
        mv = memoryview(big)[3:3 + len(data)]
        alts = [("bytearray", bytearray(data)), ("memoryview-slice", mv)]
        n = len(data)
        if n:
            sel = (n * 31 + data[0]) % 5  # a pure function of the data: which unusual view is tried for this message
            if sel == 0:
                alts.append(("memoryview-c", memoryview(data).cast("c")))
            elif sel == 1:
                alts.append(("memoryview-b", memoryview(data).cast("b")))
            elif sel == 2 and n % 2 == 0:
                alts.append(("memoryview-H", memoryview(data).cast("H")))
            elif sel == 3 and n % 4 == 0:
                alts.append(("memoryview-I", memoryview(bytearray(data)).cast("I")))
            elif sel == 4 and n % 2 == 0 and n >= 4:
                alts.append(("memoryview-2d", memoryview(data).cast("B", shape=[2, n // 2])))
        if got[0] == "ok" and n and (n + data[-1]) % 3 == 0:
            # the returned object is a value of its own: changing the input buffer afterwards must not change it
            ba = bytearray(data)
            try:
                o = pydsdl.deserialize(real, ba, with_delimiter_header=hdr) if hdr else pydsdl.deserialize(real, ba)
                before = R.norm(o)
                for i in range(len(ba)):
                    ba[i] ^= 0xFF
                if R.norm(o) != before or before != got[1]:
                    out.fail("C07.isolation", "%s: the object returned for a bytearray changed when the bytearray was modified afterwards" % where, "isolation:aliases-input")
            except Exception as ex:  # noqa
                out.fail("C07.isolation", "%s: bytearray input raised %s" % (where, type(ex).__name__), "isolation:bytearray-raised")
        if got[0] == "ok" and n and (n + data[0]) % 3 == 1:
            # every call returns a value of its own: what the caller does to one result must not show up in the next
            try:
                o1 = pydsdl.deserialize(real, data, with_delimiter_header=hdr) if hdr else pydsdl.deserialize(real, data)
                _scribble(o1)
                o2 = pydsdl.deserialize(real, data, with_delimiter_header=hdr) if hdr else pydsdl.deserialize(real, data)
                if R.norm(o2) != got[1]:
                    out.fail("C07.isolation", "%s: after the caller modified the object returned by an earlier call in place, the same call returns %r" % (where, o2), "isolation:result-shared")
            except Exception as ex:  # noqa
                out.fail("C07.isolation", "%s: repeated call raised %s" % (where, type(ex).__name__), "isolation:repeat-raised")
        for nm, buf in alts:
            alt = self._decode_real(pydsdl, real, buf, hdr)
            out.stats["buffer_form:" + nm] += 1
            if alt != got:
                out.fail("C07.isolation", "%s: result depends on the buffer object / its neighbours: bytes -> %r, %s -> %r" % (where, got, nm, alt), "isolation:" + nm.split("-")[0])
        return got


def _scribble(o, depth: int = 0) -> None:
    """In-place modification of everything mutable inside a returned object (lists grow, dict values change, keys are added)."""
    if depth > 6:
        return
    if isinstance(o, dict):
        for k in list(o.keys()):
            v = o[k]
            if isinstance(v, (dict, list)):
                _scribble(v, depth + 1)
            else:
                o[k] = 12345 if not isinstance(v, (str, bytes)) else v
        o["__scribbled__"] = True
    elif isinstance(o, list):
        for v in o:
            if isinstance(v, (dict, list)):
                _scribble(v, depth + 1)
        o.append(1000)
        o.reverse()


CHECK = C07()
