"""C05 - a definition is accepted iff it obeys the static rules (World W; by-product of the fault catalogue)."""
from __future__ import annotations
import copy
import random
from ..core.scenario import digest
from ..model import gen as G
from ..model import mutate as MU
from ..model import types as T
from ..model.namespace import Universe
from .base import Check, Outcome, InvalidScenario
from . import wcommon as W


class C05(Check):
    PROP = "C05"
    RULE = ("each run = one valid generated workspace + 0-2 injections from the rule catalogue (18 abstract mutators: widths, "
            "cast mode, capacity, attribute / type / namespace / root names incl. reserved words in any letter case and near "
            "misses, duplicate attributes, union arity / padding, void / utf8 / byte placement, deprecation transitivity, "
            "sealing and extent values, version, port-ID; 30 raw directive/statement injectors), placed in a target or in a "
            "dependency, in a message or a service, then read via read_namespace and read_files under seeded enumeration keys "
            "and spellings. The verdict is computed by model/rules.py from the mutated abstract workspace: an injection that "
            "leaves it valid is a boundary neighbour that must be accepted. This is catalogue-driven input mutation; the "
            "simulation only adds position / order / spelling independence. distinct = hash of (sorted injection labels, "
            "model verdict, read kind); non-trivial = at least one injection was applied and lies in the closure of a read")
    RULE = RULE + "; " + 'rounds 7-8: deprecation rule through 0-4 array levels via the public constructors; untouched definitions rendered with @sealed before the attributes'
    TIERS = {"quick": {"runs": 2400, "budget_s": 50}, "thorough": {"runs": 100000, "budget_s": 900}}

    def generate(self, rng: random.Random, r: int, tier: str) -> dict:
        ws = G.gen_workspace(rng, roots=(1, 2), defs=(2, 7), p_ref=0.5, p_service=0.25, p_union=0.3, p_port=0.25, p_dep=0.15)
        scn: dict = {"ws": ws, "inj": [], "allow_unreg": rng.random() < 0.3}
        n = rng.choice([0, 1, 1, 1, 1, 2])
        # raw injectors whose verdict does not depend on what else is in the definition (position "any", not about sealing):
        # only these may be combined with a second injection
        independent = sorted(k for k, v in MU.RAW.items() if v[1] == "any" and k not in ("second-sealed", "sealed-expr")) + sorted(MU.LAZY)
        for _ in range(n):
            if rng.random() < 0.6:
                scn["inj"].append({"k": "abs", "m": rng.randrange(len(MU.ABSTRACT)), "seed": rng.randrange(1 << 30)})
            else:
                names = independent if n > 1 else sorted(MU.RAW) + sorted(MU.LAZY) + sorted(MU.FINAL) + [k0 for k0, v0 in MU.RAW.items() if v0[1] in ("after-extent", "response-first-empty-request")] * 3
                scn["inj"].append({"k": "raw", "name": rng.choice(names), "def": rng.randrange(64), "seed": rng.randrange(1 << 30)})
        scn["read_seed"] = rng.randrange(1 << 30)
        return scn

    def build(self, scn: dict):
        """Deterministically applies the injections; returns (mutated ws, labels, raw verdicts, touched keys)."""
        ws = copy.deepcopy(scn["ws"])
        labels = []
        raw_reject = []
        touched_raw = []
        for inj in scn["inj"]:
            rng = random.Random(inj["seed"])
            if inj["k"] == "abs":
                lab = MU.ABSTRACT[inj["m"] % len(MU.ABSTRACT)](rng, ws)
                if lab:
                    labels.append(lab)
            else:
                defs = [d for r in ws["roots"] for d in r["defs"]]
                d = defs[inj["def"] % len(defs)]
                pos = MU.inject_raw(rng, d, inj["name"])
                if pos is not None:
                    labels.append("raw:" + inj["name"])
                    verdict = MU.RAW[inj["name"]][2] if inj["name"] in MU.RAW else "reject"
                    touched_raw.append((d, verdict))
        return ws, labels, touched_raw

    def execute(self, scn: dict) -> Outcome:
        from ..worlds.workspace import World, classify_exc
        out = Outcome()
        W.validate_ws(scn["ws"])
        ws, labels, touched_raw = self.build(scn)
        dependent = [i for i in scn["inj"] if i["k"] == "raw" and (i["name"] in MU.FINAL or (i["name"] in MU.RAW and (MU.RAW[i["name"]][1] != "any" or i["name"] in ("second-sealed", "sealed-expr"))))]
        if dependent and len(scn["inj"]) > 1:
            raise InvalidScenario("a position / sealing dependent raw injector cannot be combined with another injection")
        uni = Universe(ws)
        if uni.dups:
            raise InvalidScenario("mutation produced duplicate keys")
        rng = random.Random(scn["read_seed"])  # spelling / order of the reads: part of the scenario (seed recorded)
        nroots = len(ws["roots"])
        reads = []
        for ri in range(nroots):
            reads.append(W.rn_op(rng, uni, ri, [x for x in range(nroots) if x != ri], allow_unreg=scn["allow_unreg"]))
        keys = list(uni.defs)
        for _ in range(2):
            targets = rng.sample(keys, rng.randint(1, min(3, len(keys))))
            troots = {uni.root_of[k] for k in targets}
            reads.append(W.rf_op(rng, uni, targets, [x for x in range(nroots) if x not in troots], allow_unreg=scn["allow_unreg"]))
        # history: the same reads again with the opposite allow_unregulated_fixed_port_id flag, in the same process, same files:
        # each verdict belongs to its own call
        flipped = []
        for op in reads[: 2 + nroots]:
            op2 = copy.deepcopy(op)
            op2["allow_unreg"] = not op.get("allow_unreg", False)
            flipped.append(op2)
        order_first = rng.random() < 0.5
        reads = (flipped + reads) if order_first else (reads + flipped)
        # layout of the text (C03 says it is irrelevant): in definitions that no raw injection touched, @sealed may come before the
        # attributes - a request section then ends with an attribute right above the `---` marker
        touched_ids = {id(d) for d, _v in touched_raw}
        frng = random.Random(scn["read_seed"] ^ 0x5EA1)
        fmt = {}
        for r0 in ws["roots"]:
            for d0 in r0["defs"]:
                if id(d0) not in touched_ids and frng.random() < 0.5:
                    fmt[T.def_key(d0)] = {"seal_first": True, "final_nl": frng.random() < 0.7}
        scn2 = {"ws": ws, "symlinks": W.symlinks_for(ws), "fmt": fmt}
        out.stats["definitions_with_sealed_first"] += len(fmt)
        w = World(scn2)
        try:
            reached = False
            verdicts = set()
            if rng.random() < 0.5:
                # history: earlier in the same process the nested namespace directories were read as roots of their own (partial
                # builds and editor plug-ins do this); whatever those calls returned or raised, the verdicts below are about the
                # directories as designated now
                subdirs = sorted({"/".join(uni.file_of(k).split("/")[: len(uni.roots[uni.root_of[k]]["dir"].split("/")) + n])
                                  for k in uni.defs for n in (1, 2)
                                  if len(uni.file_of(k).split("/")) - 1 >= len(uni.roots[uni.root_of[k]]["dir"].split("/")) + n})
                for sd in subdirs[:4]:
                    w.run_read({"op": "rn", "root": {"p": sd}, "lookups": [], "key": None, "cwd": "", "allow_unreg": True})
                    out.stats["subroot_prereads"] += 1
            for i, op in enumerate(reads):
                # bare-name roots are ambiguous if the (possibly renamed) root name is odd; keep designations absolute here
                for a in op.get("roots", []) or []:
                    if a.get("st") == "name":
                        a["st"] = "abs"
                targets, vis = W.op_targets(uni, op)
                closure = uni.closure(targets, vis)
                reasons, opens = W.model_verdict(uni, targets, vis, bool(op.get("allow_unreg", False)))
                raw_in = [(d, v) for d, v in touched_raw if T.def_key(d) in closure]
                if any(v == "reject" for _d, v in raw_in):
                    reasons.append("raw-injection")
                if labels and (raw_in or reasons or any(True for _ in labels)):
                    reached = reached or bool(reasons) or bool(raw_in) or True
                res = w.run_read(op)
                out.stats["reads"] += 1
                status = "ok" if res["ok"] else classify_exc(res["exc"])
                out.obs.append([i, status, bool(reasons)])
                if opens and not reasons:
                    out.stats["open_verdict"] += 1
                    verdicts.add("open")
                    continue
                if reasons:
                    verdicts.add("reject")
                    out.stats["must_reject"] += 1
                    if res["ok"]:
                        out.fail("C05.reject", "read %d: model says reject (%s; injections %s) but the call returned" % (i, reasons[:3], labels),
                                 "accepted:" + _norm(reasons[0]))
                    elif status != "IDE":
                        out.fail("C05.reject", "read %d: rejected with %s instead of InvalidDefinitionError (%s): %s" % (i, type(res["exc"]).__name__, reasons[:2], str(res["exc"])[:300]),
                                 "wrong-class:%s:%s" % (type(res["exc"]).__name__, _norm(reasons[0])))
                else:
                    verdicts.add("accept")
                    out.stats["must_accept"] += 1
                    if not res["ok"]:
                        out.fail("C05.accept", "read %d: model says valid (injections %s) but the call raised %s: %s" % (i, labels, type(res["exc"]).__name__, str(res["exc"])[:400]),
                                 "rejected:%s:%s" % (type(res["exc"]).__name__, ",".join(sorted(l.split(":")[0] + ":" + l.split(":")[-1] for l in labels))[:80]))
            # history: the same process then meets the original, valid workspace in the same directories (when the injections
            # did not move directories): nothing of the rejected definitions may be remembered
            uni0 = Universe(scn["ws"])
            if [r0["dir"] for r0 in uni0.roots] == [r0["dir"] for r0 in uni.roots]:
                import os, shutil
                for r0 in uni.roots:
                    shutil.rmtree(w.abs(r0["dir"]), ignore_errors=True)
                    os.makedirs(w.abs(r0["dir"]), exist_ok=True)
                from ..model.render import render
                for k0, d0 in uni0.defs.items():
                    w.write(uni0.file_of(k0), render(d0, None)[0])
                for ri in range(len(uni0.roots)):
                    op = W.rn_op(rng, uni0, ri, [x for x in range(len(uni0.roots)) if x != ri], allow_unreg=scn["allow_unreg"])
                    res = w.run_read(op)
                    out.stats["recovery_reads"] += 1
                    if not res["ok"]:
                        out.fail("C05.accept", "recovery: after reading the mutated workspace (%s) the same process rejects the original valid one: %s: %s" % (labels, type(res["exc"]).__name__, str(res["exc"])[:300]),
                                 "recovery:" + type(res["exc"]).__name__)
                    elif [str(t) for t in res["direct"]] != uni0.keys_of_root(ri):
                        out.fail("C05.accept", "recovery: the original valid workspace reads as %s, model %s" % ([str(t) for t in res["direct"]], uni0.keys_of_root(ri)), "recovery-differs")
            self._api_deprecation_rule(out, rng)
            out.nontrivial = bool(labels)
            out.shape = digest([sorted(labels), sorted(verdicts)])
            for l in labels:
                out.stats["inj:" + l.split(":")[0]] += 1
        finally:
            w.close()
        return out


def _api_rule(self, out, rng) -> None:
    """Types that only the public constructors can build (arrays of arrays, which the grammar cannot spell): a non-deprecated
    composite must not use a deprecated one however many array levels lie between; a deprecated user may."""
    import pydsdl
    from pathlib import Path
    from .base import raised_inside_sut

    def comp(cls, name, attrs, dep):
        return cls(name=name, version=pydsdl.Version(1, 0), attributes=attrs, deprecated=dep, fixed_port_id=None, source_file_path=Path("api_ns") / (name.split(".")[-1] + ".1.0.dsdl"),
                   has_parent_service=False)
    u8 = pydsdl.UnsignedIntegerType(8, pydsdl.PrimitiveType.CastMode.TRUNCATED)
    old_kind = rng.choice(["struct", "union", "delimited"])
    old = comp(pydsdl.StructureType, "api_ns.Old", [pydsdl.Field(u8, "a")], True) if old_kind != "union" else comp(pydsdl.UnionType, "api_ns.Old", [pydsdl.Field(u8, "a"), pydsdl.Field(u8, "b")], True)
    if old_kind == "delimited":
        old = pydsdl.DelimitedType(old, 64)
    levels = rng.randint(0, 4)
    t = old
    shape = []
    for _ in range(levels):
        if rng.random() < 0.5:
            t = pydsdl.FixedLengthArrayType(t, rng.randint(1, 3)); shape.append("fixed")
        else:
            t = pydsdl.VariableLengthArrayType(t, rng.randint(1, 3)); shape.append("var")
    user_cls = rng.choice([pydsdl.StructureType, pydsdl.UnionType])
    attrs = lambda: [pydsdl.Field(u8, "first"), pydsdl.Field(t, "uses_old")] + ([pydsdl.Field(u8, "last")] if rng.random() < 0.5 else [])
    out.stats["api_deprecation_rule:levels=%d" % levels] += 1
    for dep in (False, True):
        try:
            comp(user_cls, "api_ns.User", attrs(), dep)
            verdict = "accepted"
        except pydsdl.InvalidDefinitionError:
            verdict = "rejected"
        except Exception as ex:
            if not raised_inside_sut(ex):
                raise
            verdict = "raised " + type(ex).__name__
        want = "accepted" if dep else "rejected"
        if verdict != want:
            out.fail("C05.reject" if not dep else "C05.accept", "public constructors: a %s %s with a field of a deprecated %s behind %d array level(s) %s was %s, the rule says %s" % (
                "deprecated" if dep else "non-deprecated", user_cls.__name__, old_kind, levels, shape, verdict, want), "api-deprecation:%s:%d" % (verdict.split(" ")[0], min(levels, 2)))


C05._api_deprecation_rule = _api_rule


def _norm(reason: str) -> str:
    # "key:problem:detail" -> "problem"
    parts = reason.split(":")
    for p in parts:
        if p in ("width", "cast", "capacity", "version", "port-range", "port-unregulated", "union-arity", "union-padding", "no-seal",
                 "extent-multiple", "extent-small", "void-placement", "utf8-placement", "byte-placement", "const-type", "nested-array",
                 "raw-injection", "cycle", "kind", "extent", "sealing", "port-changed", "port-removed") or p.startswith(("name", "attr-", "deprecated", "undefined", "const-value", "port-collision")):
            return p
    return parts[0]


CHECK = C05()
