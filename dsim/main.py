"""Batch driver (parent process). Never imports the code under test; workers do, one PYTHONHASHSEED each."""
from __future__ import annotations
import argparse
import json
import os
import queue
import subprocess
import sys
import threading
import time
from collections import Counter

from .core import scenario as S
from .core.rng import derive
from .core.shrink import shrink

VERIF = os.path.dirname(os.path.dirname(os.path.abspath(__file__)))
PY = os.environ.get("DSIM_PYTHON", "/venv/bin/python")
REPO = os.environ.get("DSIM_REPO", "/repo")
NPROC = int(os.environ.get("DSIM_WORKERS", str(min(16, os.cpu_count() or 4))))
DEFAULT_SEEDS = {"quick": 20260924, "thorough": 777000111}


def optimized(hashseed) -> bool:
    return int(hashseed) % 4 == 3 and os.environ.get("DSIM_NO_OPTIMIZED_WORKERS") != "1"


def _env(hashseed: int) -> dict:
    e = dict(os.environ)
    e["PYTHONHASHSEED"] = str(hashseed)
    # host configuration as a function of the hash seed (so every replay reproduces it): one interpreter in four runs with
    # asserts compiled out (python -O), as deployments that set PYTHONOPTIMIZE do
    if optimized(hashseed):
        e["PYTHONOPTIMIZE"] = "1"
    else:
        e.pop("PYTHONOPTIMIZE", None)
    e["PYTHONPATH"] = VERIF + os.pathsep + REPO
    e["DSIM_REPO"] = REPO
    e["PYTHONDONTWRITEBYTECODE"] = "1"
    e.pop("PYDSDL_POISON_SLOW_EXPANSION_SECONDS", None)
    return e


class Executor:
    """A persistent worker in exec mode under a fixed hash seed (replay, confirmation, shrinking)."""

    def __init__(self, prop: str, hashseed: int):
        self.prop, self.hashseed = prop, hashseed
        self.p = None

    def _start(self):
        self.p = subprocess.Popen([PY, "-m", "dsim.worker", "exec", "--prop", self.prop], stdin=subprocess.PIPE,
                                  stdout=subprocess.PIPE, stderr=subprocess.DEVNULL, env=_env(self.hashseed), cwd=VERIF,
                                  text=True)

    def run(self, scn: dict, timeout: float = 180.0) -> dict:
        if self.p is None or self.p.poll() is not None:
            self._start()
        assert self.p and self.p.stdin and self.p.stdout
        box: list = []

        def rd():
            while True:
                ln = self.p.stdout.readline()
                if ln and ln.startswith('{"ev": "hb"}'):
                    continue  # heartbeat of a long run
                box.append(ln)
                return

        try:
            self.p.stdin.write(json.dumps(scn) + "\n")
            self.p.stdin.flush()
        except BrokenPipeError:
            self.close()
            return {"harness_error": "executor died"}
        t = threading.Thread(target=rd, daemon=True)
        t.start()
        t.join(timeout)
        if t.is_alive() or not box or not box[0]:
            self.close()
            return {"hang": True} if t.is_alive() else {"harness_error": "executor died"}
        return json.loads(box[0])

    def close(self):
        if self.p is not None:
            try:
                self.p.kill()
                self.p.wait(5)
            except Exception:
                pass
            self.p = None


def hashseed_for(seed: int, wid: int) -> int:
    return derive(seed, "hashseed", wid) % 4000000 + 1


# ---- known findings --------------------------------------------------------------------------------------------------
def load_known() -> dict:
    p = os.path.join(VERIF, "known_findings.json")
    if not os.path.exists(p):
        return {"findings": []}
    with open(p) as f:
        return json.load(f)


def known_for(prop: str) -> list[dict]:
    return [k for k in load_known().get("findings", []) if k.get("property") == prop and k.get("status") == "known"]


def viol_matches(v: dict, k: dict) -> bool:
    sigs = k.get("sig")
    sigs = sigs if isinstance(sigs, list) else [sigs]
    return v.get("oracle") == k.get("oracle") and v.get("sig") in sigs


# ---- batch ------------------------------------------------------------------------------------------------------------
def run_batch(check, prop: str, tier: str, seed: int, runs: int, budget: float, first: int = 0, nworkers: int | None = None,
              quiet: bool = False) -> dict:
    nw = nworkers or NPROC
    cross = bool(check.CROSS_SEED) and nw >= 2
    procs = []
    q: queue.Queue = queue.Queue()
    half = nw // 2 if cross else nw
    for w in range(nw if not cross else half * 2):
        wid = w % half if cross else w
        hs = hashseed_for(seed, w)
        cmd = [PY, "-m", "dsim.worker", "batch", "--prop", prop, "--seed", str(seed), "--tier", tier, "--wid", str(wid),
               "--nw", str(half), "--runs", str(runs), "--budget", str(budget), "--first", str(first)]
        errf = open(os.path.join(VERIF, "scratch", "worker-%s-%d.err" % (prop, w)), "w")
        p = subprocess.Popen(cmd, stdout=subprocess.PIPE, stderr=errf, env=_env(hs), cwd=VERIF, text=True)
        procs.append({"p": p, "w": w, "wid": wid, "hs": hs, "last": time.monotonic(), "cur": None, "done": False, "errf": errf})

        def reader(pp=p, ww=w):
            for line in pp.stdout:
                q.put((ww, line))
            q.put((ww, None))

        threading.Thread(target=reader, daemon=True).start()

    results: dict[int, list[dict]] = {}
    agg = {"runs": 0, "stats": Counter(), "shapes": set(), "nt_shapes": set(), "nontrivial": 0, "viol": [], "harness": [],
           "hangs": [], "invalid": [], "samples": [], "digests": {}, "ended": 0, "hashseeds": sorted({x["hs"] for x in procs}), "xmismatch": []}
    alive = len(procs)
    hang_limit = float(os.environ.get("DSIM_HANG_S", str(getattr(check, "HANG_S", 240))))
    t0 = time.monotonic()
    hard_deadline = t0 + budget + hang_limit + 60
    while alive > 0:
        try:
            w, line = q.get(timeout=5)
        except queue.Empty:
            now = time.monotonic()
            for pr in procs:
                if not pr["done"] and pr["cur"] is not None and now - pr["last"] > hang_limit:
                    pr["p"].kill()
                    agg["hangs"].append({"r": pr["cur"], "hashseed": pr["hs"]})
                    pr["cur"] = None
            if now > hard_deadline:
                for pr in procs:
                    if not pr["done"]:
                        pr["p"].kill()
                        agg["harness"].append("worker %d exceeded the hard deadline" % pr["w"])
            continue
        pr = procs[w]
        pr["last"] = time.monotonic()
        if line is None:
            pr["done"] = True
            alive -= 1
            continue
        try:
            ev = json.loads(line)
        except Exception:
            agg["harness"].append("unparsable worker output: %r" % line[:200])
            continue
        if ev.get("ev") == "hb":
            continue
        if ev.get("ev") == "start":
            pr["cur"] = ev["r"]
        elif ev.get("ev") == "end":
            agg["ended"] += 1
            pr["cur"] = None
        elif ev.get("ev") == "done":
            pr["cur"] = None
            r = ev["r"]
            if ev.get("invalid"):
                # the generator produced a scenario outside the reference model's domain: skipped (sound), counted, and a
                # harness error only if it happens often enough to indicate a generator bug
                agg["invalid"].append("run %d: %s" % (r, ev["harness_error"][-300:]))
                continue
            if ev.get("harness_error"):
                agg["harness"].append("run %d: %s" % (r, ev["harness_error"][-1500:]))
                continue
            results.setdefault(r, []).append(ev)
            agg["runs"] += 1
            for sk, sv in ev.get("stats", {}).items():
                if sk.startswith("max_"):
                    agg["stats"][sk] = max(agg["stats"][sk], sv)
                else:
                    agg["stats"][sk] += sv
            if ev.get("shapes"):
                agg["shapes"].update(ev["shapes"])
            elif ev.get("shape"):
                agg["shapes"].add(ev["shape"])
            if ev.get("nt"):
                agg["nontrivial"] += 1
                if ev.get("shapes"):
                    agg["nt_shapes"].update(ev["shapes"])
                else:
                    agg["nt_shapes"].add(ev.get("shape") or "r%d" % r)
            for v in ev.get("viol", []):
                agg["viol"].append({"r": r, "hashseed": int(ev["hashseed"]), "v": v, "scn": ev.get("scn"),
                                    "hist": {"wid": pr["wid"], "nw": half, "first": first, "seed": seed, "tier": tier}})
            if ev.get("scn") is not None and not ev.get("viol") and len(agg["samples"]) < 3:
                agg["samples"].append(ev["scn"])
    for pr in procs:
        pr["p"].wait()
        pr["errf"].close()
        if pr["p"].returncode not in (0, -9) and not agg["hangs"]:
            agg["harness"].append("worker %d exited with %s (see scratch/worker-%s-%d.err)" % (pr["w"], pr["p"].returncode, prop, pr["w"]))
    if cross:
        for r, evs in results.items():
            if len(evs) == 2 and evs[0].get("xdigest") != evs[1].get("xdigest"):
                agg["xmismatch"].append({"r": r, "hashseeds": [int(e["hashseed"]) for e in evs]})
        agg["xcompared"] = sum(1 for evs in results.values() if len(evs) == 2)
        agg["logical_runs"] = len(results)
    if len(agg["invalid"]) > max(5, 0.02 * max(1, agg["runs"])):
        agg["harness"].append("%d generated scenarios were outside the model's domain (e.g. %s)" % (len(agg["invalid"]), agg["invalid"][0]))
    agg["digests"] = {r: [e["digest"] for e in evs] for r, evs in results.items()}
    agg["wall"] = time.monotonic() - t0
    return agg


def regen(check, prop: str, seed: int, r: int, tier: str) -> dict:
    from .core.rng import stream
    scn = check.generate(stream(seed, prop, "run", r), r, tier)
    scn.setdefault("prop", prop)
    scn["seed"] = seed
    scn["run"] = r
    return scn


def confirm_shrink_report(check, prop: str, rec: dict, known: list[dict], do_shrink: bool = True) -> tuple[str, str | None]:
    """Returns ("violation"|"known"|"unconfirmed", message/path)."""
    scn = rec["scn"]
    oracle = rec["v"]["oracle"]
    hs = rec["hashseed"]
    ex = Executor(prop, hs)
    try:
        res = ex.run(scn)
        sig = rec["v"].get("sig")
        def fails(rr):
            return any(v["oracle"] == oracle and v.get("sig") == sig for v in rr.get("viol", [])) or (oracle.endswith(".terminates") and rr.get("hang"))
        history_dependent = False
        if not fails(res):
            history_dependent = True
            hp = history_replay(check, prop, rec, fails)
            if hp is not None:
                return "violation", hp
        best, st = scn, {}
        if do_shrink and not history_dependent:
            def still(c):
                return fails(ex.run(c, timeout=60))
            best, st = shrink(scn, still, extra_candidates=getattr(check, "simplify", None),
                              budget_s=float(os.environ.get("DSIM_SHRINK_S", "90")))
        final = ex.run(best)
        vv = [v for v in final.get("viol", []) if v["oracle"] == oracle and v.get("sig") == sig]
        v = vv[0] if vv else rec["v"]
        for k in known:
            if viol_matches(v, k) or viol_matches(rec["v"], k):
                return "known", k["id"]
        os.makedirs(os.path.join(VERIF, "replays"), exist_ok=True)
        replay = {"property": prop, "oracle": oracle, "detail": v.get("detail"), "sig": v.get("sig"), "hashseed": hs,
                  "scenario": best, "shrink": st, "history_dependent": history_dependent,
                  "original_run": {"seed": scn.get("seed"), "run": scn.get("run")}}
        path = os.path.join(VERIF, "replays", "%s-%s.json" % (prop, S.digest([best, oracle])))
        S.save(path, replay)
        # the replay file must reproduce the violation in a fresh process
        ex.close()
        ok = replay_file(check, prop, path, quiet=True) == 1
        if not ok and not history_dependent and best is not scn:
            # the shrunk scenario only failed inside the long-lived shrinking process (state carried between calls):
            # fall back to the scenario as found, which was confirmed in a fresh interpreter above
            replay["scenario"] = scn
            replay["shrink"] = dict(st, discarded="shrunk scenario did not reproduce in a fresh interpreter (history-dependent)")
            path = os.path.join(VERIF, "replays", "%s-%s.json" % (prop, S.digest([scn, oracle])))
            S.save(path, replay)
            ok = replay_file(check, prop, path, quiet=True) == 1
        if not ok and not history_dependent:
            return "unconfirmed", path
        return "violation", path
    finally:
        ex.close()


def run_history(prop: str, hashseed: int, scns: list[dict]) -> dict:
    """Executes a sequence of scenarios in ONE fresh interpreter (state carried from one call to the next is the point);
    returns the result of the last one."""
    ex = Executor(prop, hashseed)
    try:
        res: dict = {}
        for s in scns:
            res = ex.run(s)
            if res.get("hang") or (res.get("harness_error") and s is not scns[-1] and "executor died" in str(res.get("harness_error"))):
                break
        return res
    finally:
        ex.close()


def history_replay(check, prop: str, rec: dict, fails) -> str | None:
    """A violation that does not reproduce from its scenario alone in a fresh interpreter: rebuild the sequence of scenarios
    the worker had executed before it (a pure function of seed, worker index and worker count), confirm that the sequence
    reproduces the violation in a fresh interpreter, minimise it by dropping scenarios, and write it as the replay file."""
    h = rec.get("hist")
    if not h:
        return None
    runs = list(range(h["first"] + h["wid"], rec["r"] + 1, h["nw"]))
    if not runs or runs[-1] != rec["r"] or len(runs) > 4000:
        return None
    scns = [regen(check, prop, h["seed"], r, h["tier"]) for r in runs[:-1]] + [rec["scn"]]
    hs = rec["hashseed"]
    if not fails(run_history(prop, hs, scns)):
        return None
    # minimise: shortest failing suffix first (doubling), then drop single predecessors
    t0 = time.monotonic()
    budget = float(os.environ.get("DSIM_SHRINK_S", "90"))
    best = scns
    k = 1
    while k < len(scns) and time.monotonic() - t0 < budget:
        cand = scns[-(k + 1):]
        if fails(run_history(prop, hs, cand)):
            best = cand
            break
        k *= 2
    i = 0
    while i < len(best) - 1 and time.monotonic() - t0 < budget:
        cand = best[:i] + best[i + 1:]
        if fails(run_history(prop, hs, cand)):
            best = cand
        else:
            i += 1
    oracle = rec["v"]["oracle"]
    replay = {"property": prop, "oracle": oracle, "detail": rec["v"].get("detail"), "sig": rec["v"].get("sig"), "hashseed": hs,
              "history_dependent": True, "history": best, "scenario": best[-1],
              "shrink": {"history_from": len(scns), "history_to": len(best), "wall_s": round(time.monotonic() - t0, 1)},
              "original_run": {"seed": h["seed"], "run": rec["r"], "worker": h["wid"], "workers": h["nw"]}}
    path = os.path.join(VERIF, "replays", "%s-h-%s.json" % (prop, S.digest([best, oracle])))
    os.makedirs(os.path.dirname(path), exist_ok=True)
    S.save(path, replay)
    if replay_file(check, prop, path, quiet=True) != 1:
        return None
    return path


def replay_file(check, prop: str, path: str, quiet: bool = False) -> int:
    rp = S.load(path)
    scn = rp["scenario"]
    if rp.get("history"):
        res = run_history(prop, int(rp.get("hashseed", 1)), rp["history"])
        hit = [v for v in res.get("viol", []) if v["oracle"] == rp["oracle"] and (rp.get("sig") is None or v.get("sig") == rp.get("sig"))]
        if not quiet:
            if res.get("harness_error"):
                print("HARNESS ERROR during replay:\n" + res["harness_error"])
                return 2
            print("replayed a history of %d scenarios in one fresh interpreter" % len(rp["history"]))
            for v in hit:
                print("reproduced %s: %s" % (v["oracle"], v.get("detail")))
            print("event-log digest:", res.get("digest"))
            print(("VIOLATION property=%s replay=%s" % (prop, path)) if hit else "not reproduced (oracle %s holds on this tree)" % rp["oracle"])
        return 1 if hit else 0
    xs = rp.get("xseeds")
    if xs:
        d = []
        for hs in xs:
            ex = Executor(prop, hs)
            d.append(ex.run(scn))
            ex.close()
        same = d[0].get("xdigest") == d[1].get("xdigest")
        if not quiet:
            print("replay %s: cross-seed digests %s" % (path, "equal" if same else "DIFFER"))
            if not same:
                print("VIOLATION property=%s replay=%s" % (prop, path))
        return 0 if same else 1
    ex = Executor(prop, int(rp.get("hashseed", 1)))
    res = ex.run(scn)
    ex.close()
    hit = [v for v in res.get("viol", []) if v["oracle"] == rp["oracle"] and (rp.get("sig") is None or v.get("sig") == rp.get("sig"))]
    if res.get("hang") and rp["oracle"].endswith(".terminates"):
        hit = [{"oracle": rp["oracle"], "detail": "hang"}]
    if not quiet:
        if res.get("harness_error"):
            print("HARNESS ERROR during replay:\n" + res["harness_error"])
            return 2
        for v in hit:
            print("reproduced %s: %s" % (v["oracle"], v.get("detail")))
        print("event-log digest:", res.get("digest"))
        if hit:
            print("VIOLATION property=%s replay=%s" % (prop, path))
        else:
            print("not reproduced (oracle %s holds on this tree)" % rp["oracle"])
    return 1 if hit else 0


def write_evidence(check, prop: str, tier: str, seed: int, agg: dict, nviol: int, extra: dict | None = None) -> None:
    cov = {
        "evaluations": int(agg["runs"]),
        "distinct_nontrivial": len(agg["nt_shapes"]),
        "rule": check.RULE,
        "samples": agg["samples"][:2] if agg["samples"] else [{"note": "no non-trivial sample captured in this run"}],
        "nontrivial_runs": agg["nontrivial"],
        "distinct_shapes": len(agg["shapes"]),
        "counters": dict(sorted(agg["stats"].items())),
        "runs_per_hour": int(agg["runs"] / max(agg["wall"], 1e-6) * 3600),
        "seeds_per_hour": int(agg.get("logical_runs", agg["runs"]) / max(agg["wall"], 1e-6) * 3600),
        "hash_seeds": agg["hashseeds"],
        "hash_seeds_of_workers_run_with_asserts_compiled_out": [h for h in agg["hashseeds"] if optimized(h)],
        "workers": NPROC,
        "workers_finished_normally": agg["ended"],
        "real_vs_stub": check.REAL_VS_STUB,
        "fault_kinds_not_injected": check.FAULTS_NOT_INJECTED,
        "hangs": len(agg["hangs"]),
        "harness_errors": len(agg["harness"]),
        "generated_scenarios_skipped_as_outside_model_domain": len(agg["invalid"]),
    }
    if "xcompared" in agg:
        cov["cross_hash_seed_pairs_compared"] = agg["xcompared"]
        cov["cross_hash_seed_mismatches"] = len(agg["xmismatch"])
    if extra:
        cov.update(extra)
    ev = {"property_id": prop, "tier": tier, "seed": seed, "level": check.LEVEL, "coverage": cov,
          "assumptions": check.ASSUMPTIONS, "wall_s": round(agg["wall"], 2), "violations": nviol}
    # evidence describes /repo itself; runs against a scratch copy (mutants, seeded changes) never overwrite it
    evdir = os.path.join(VERIF, "evidence") if os.path.realpath(REPO) == "/repo" else os.path.join(VERIF, "scratch", "evidence-other-tree")
    os.makedirs(evdir, exist_ok=True)
    with open(os.path.join(evdir, "%s.json" % prop), "w") as f:
        json.dump(ev, f, indent=1, sort_keys=True, default=str)
        f.write("\n")


def main(argv=None) -> int:
    ap = argparse.ArgumentParser(prog="check")
    ap.add_argument("prop")
    ap.add_argument("rest", nargs="*")
    ap.add_argument("--tier", default=os.environ.get("VERIF_TIER", "quick"))
    ap.add_argument("--seed", type=int, default=None)
    ap.add_argument("--replay", default=None)
    ap.add_argument("--runs", type=int, default=None)
    ap.add_argument("--budget", type=float, default=None)
    ap.add_argument("--no-shrink", action="store_true")
    a = ap.parse_args(argv)
    os.makedirs(os.path.join(VERIF, "scratch"), exist_ok=True)
    sys.path.insert(0, VERIF)
    sys.path.insert(1, REPO)
    if a.prop == "selftest":
        from . import selftest
        return selftest.main(a)
    from .checks.base import load
    prop = a.prop.upper()
    check = load(prop)
    if a.replay:
        return replay_file(check, prop, a.replay)
    tier = a.tier if a.tier in ("quick", "thorough") else "quick"
    seed = a.seed if a.seed is not None else int(os.environ.get("VERIF_SEED", DEFAULT_SEEDS[tier]))
    cfg = dict(check.TIERS[tier])
    runs = a.runs or int(os.environ.get("DSIM_RUNS", cfg["runs"]))
    budget = a.budget or float(os.environ.get("DSIM_BUDGET_S", cfg["budget_s"]))
    print("check %s tier=%s VERIF_SEED=%d runs<=%d budget=%.0fs workers=%d repo=%s" % (prop, tier, seed, runs, budget, NPROC, REPO))
    sys.stdout.flush()
    known = known_for(prop)
    nviol = 0
    rc = 0
    # 1. pinned scenarios of known findings: still failing -> KNOWN-FINDING line; repaired -> nothing
    for k in known:
        p = os.path.join(VERIF, k["scenario"])
        rp = S.load(p)
        ex = Executor(prop, int(rp.get("hashseed", 1)))
        res = ex.run(rp["scenario"])
        ex.close()
        if res.get("harness_error"):
            print("HARNESS ERROR replaying known finding %s:\n%s" % (k["id"], res["harness_error"]))
            rc = 2
        elif any(viol_matches(v, k) for v in res.get("viol", [])):
            print("KNOWN-FINDING: property=%s %s: %s" % (prop, k["id"], k["what"]))
    # 2. exploration
    agg = run_batch(check, prop, tier, seed, runs, budget)
    # 3. violations
    reported: set[str] = set()
    pending = []
    for rec in agg["viol"]:
        if any(viol_matches(rec["v"], k) for k in known):
            agg["stats"]["known_finding_hits"] += 1
            continue
        pending.append(rec)
    for h in agg["hangs"]:
        ho = getattr(check, "HANG_ORACLE", None)
        scn = regen(check, prop, seed, h["r"], tier)
        if ho:
            pending.append({"r": h["r"], "hashseed": h["hashseed"], "v": {"oracle": ho, "detail": "no progress within the watchdog limit", "sig": ho}, "scn": scn})
        else:
            agg["harness"].append("run %d hung (hashseed %d)" % (h["r"], h["hashseed"]))
    for xm in agg["xmismatch"]:
        scn = regen(check, prop, seed, xm["r"], tier)
        path = os.path.join(VERIF, "replays", "%s-x-%s.json" % (prop, S.digest(scn)))
        os.makedirs(os.path.dirname(path), exist_ok=True)
        S.save(path, {"property": prop, "oracle": prop + ".invariance", "xseeds": xm["hashseeds"], "scenario": scn,
                      "detail": "canonical observations differ between PYTHONHASHSEED %s" % xm["hashseeds"]})
        if replay_file(check, prop, path, quiet=True) == 1:
            print("VIOLATION property=%s replay=%s" % (prop, path))
            print("  oracle=%s.invariance (cross hash seed) run=%d seeds=%s" % (prop, xm["r"], xm["hashseeds"]))
            nviol += 1
        else:
            agg["harness"].append("cross-seed mismatch of run %d did not reproduce" % xm["r"])
    by_oracle: dict[str, list] = {}
    for rec in pending:
        by_oracle.setdefault(rec["v"]["oracle"] + "|" + str(rec["v"].get("sig")), []).append(rec)
    for key in sorted(by_oracle)[:6]:
        rec = by_oracle[key][0]
        if rec.get("scn") is None:
            rec["scn"] = regen(check, prop, seed, rec["r"], tier)
        kind, info = confirm_shrink_report(check, prop, rec, known, do_shrink=not a.no_shrink)
        if kind == "known":
            agg["stats"]["known_finding_hits"] += 1
            continue
        if kind == "unconfirmed":
            agg["harness"].append("violation %s of run %d did not reproduce from its replay file %s" % (rec["v"]["oracle"], rec["r"], info))
            continue
        nviol += 1
        print("VIOLATION property=%s replay=%s" % (prop, info))
        print("  oracle=%s seed=%d run=%d hashseed=%d (%d runs hit this oracle/signature)" % (rec["v"]["oracle"], seed, rec["r"], rec["hashseed"], len(by_oracle[key])))
        print("  detail: %s" % (rec["v"].get("detail") or "")[:600])
    write_evidence(check, prop, tier, seed, agg, nviol, extra={"violation_signatures": sorted(by_oracle)[:20]} if by_oracle else None)
    print("%s: %d runs (%d non-trivial, %d distinct non-trivial shapes) in %.1fs; violations=%d; harness errors=%d" % (
        prop, agg["runs"], agg["nontrivial"], len(agg["nt_shapes"]), agg["wall"], nviol, len(agg["harness"])))
    for h in agg["harness"][:5]:
        print("HARNESS: " + h)
    if agg["invalid"]:
        print("note: %d generated scenarios were outside the model's domain and were skipped, e.g. %s" % (len(agg["invalid"]), agg["invalid"][0][:200]))
    if nviol:
        return 1
    if agg["harness"] or rc == 2 or agg["runs"] == 0:
        return 2
    return 0


if __name__ == "__main__":
    sys.exit(main())
