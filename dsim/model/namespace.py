"""Abstract namespace: predicts what read_namespace / read_files must return. No pydsdl import.

workspace = {"roots": [{"dir": "w/d0/alpha", "name": "alpha", "defs": [def, ...]}, ...]}
A root's directory name is its root namespace name; all defs in it have names starting with "<name>.".
"""
from __future__ import annotations
from . import types as T


def sort_key(d: dict):
    return (d["name"], -d["ver"][0], -d["ver"][1])


class Universe:
    def __init__(self, ws: dict):
        self.ws = ws
        self.roots = ws["roots"]
        self.defs: dict[str, dict] = {}
        self.root_of: dict[str, int] = {}
        self.dups: list[str] = []
        self.all: list[tuple[int, dict]] = []  # every (root index, definition), duplicates included
        for ri, r in enumerate(self.roots):
            for d in r["defs"]:
                k = T.def_key(d)
                self.all.append((ri, d))
                if k in self.defs:
                    self.dups.append(k)
                    continue  # the first occurrence is the one the model talks about
                self.defs[k] = d
                self.root_of[k] = ri
        self.res = T.Resolver(self.defs)

    def file_of(self, key: str) -> str:
        """Logical path (relative to the scratch root) of the definition's file."""
        return self.file_of_def(self.root_of[key], self.defs[key])

    def file_of_def(self, ri: int, d: dict) -> str:
        sub = d["name"].split(".")[1:-1]
        return "/".join([self.roots[ri]["dir"]] + sub + [T.file_name(d)])

    def keys_of_root(self, ri: int) -> list[str]:
        return [T.def_key(d) for d in sorted(self.roots[ri]["defs"], key=sort_key)]

    def sorted_keys(self, keys) -> list[str]:
        return [T.def_key(d) for d in sorted((self.defs[k] for k in keys), key=sort_key)]

    def closure(self, keys, visible_roots: set[int] | None = None) -> set[str]:
        """Targets plus everything they transitively reference (references to unknown keys are ignored here)."""
        out: set[str] = set()
        todo = list(keys)
        while todo:
            k = todo.pop()
            if k in out or k not in self.defs:
                continue
            if visible_roots is not None and self.root_of[k] not in visible_roots and k not in keys:
                continue
            out.add(k)
            todo.extend(T.def_refs(self.defs[k]))
        return out

    def missing_refs(self, keys, visible_roots: set[int]) -> list[tuple[str, str]]:
        out = []
        for k in self.closure(keys, visible_roots):
            for r in T.def_refs(self.defs[k]):
                if r not in self.defs or self.root_of[r] not in visible_roots:
                    out.append((k, r))
        return out
