"""Reference peer: an independent Specification codec over the abstract type language. No pydsdl import.

Bit order: the serialized representation is one little-endian bit string (bit i of the stream is bit i%8 of byte i//8),
so a Python int is the natural buffer: writing n bits of v at position p is  acc |= (v & mask) << p.
Values: bool | int | float | str (utf8[<=n]) | bytes (byte[...]) | list | dict (struct: name->value, union: {name: value}).
"""
from __future__ import annotations
import math
import struct
from . import types as T

FMT = {16: "<e", 32: "<f", 64: "<d"}
FMAX = {16: 65504.0, 32: float((2 - 2 ** -23) * 2 ** 127), 64: float((2 - 2 ** -52) * 2 ** 1023)}


class Reject(Exception):
    def __init__(self, kind: str, where: str = ""):
        super().__init__(kind + " " + where)
        self.kind = kind


class Writer:
    def __init__(self) -> None:
        self.acc = 0
        self.n = 0
        self.marks: list[tuple[str, int]] = []  # (path, start bit)
        self.ctl: list[tuple[str, int, int, int]] = []  # control items: (kind "len"|"tag"|"hdr", start bit, width, limit)

    def bits(self, v: int, n: int) -> None:
        self.acc |= (v & ((1 << n) - 1)) << self.n
        self.n += n

    def align(self, a: int) -> None:
        self.n = -(-self.n // a) * a

    def bytes(self) -> bytes:
        return self.acc.to_bytes((self.n + 7) // 8, "little")


def float_bits(width: int, cast: str, v) -> int:
    x = float(v) if not isinstance(v, float) else v
    if cast == "s" and math.isfinite(x):
        x = max(-FMAX[width], min(FMAX[width], x))
    try:
        raw = struct.pack(FMT[width], x)
    except OverflowError:
        raw = struct.pack(FMT[width], math.copysign(math.inf, x))
    return int.from_bytes(raw, "little")


def int_bits(t: list, v: int) -> int:
    n = T.bits_of(t)
    cast = "t" if t[0] in ("byte", "utf8") else ("s" if t[0] == "i" else t[2])
    v = int(v)
    if cast == "s":
        lo, hi = (-(1 << (n - 1)), (1 << (n - 1)) - 1) if t[0] == "i" else (0, (1 << n) - 1)
        v = max(lo, min(hi, v))
    return v & ((1 << n) - 1)


def default_value(res: T.Resolver, t: list):
    k = t[0]
    if k == "bool":
        return False
    if k in ("u", "i", "byte", "utf8"):
        return 0
    if k == "f":
        return 0.0
    if k == "arr":
        if t[1][0] == "byte":
            return bytes(t[2])
        return [default_value(res, t[1]) for _ in range(t[2])]
    if k == "var":
        return "" if t[1][0] == "utf8" else b"" if t[1][0] == "byte" else []
    if k == "ref":
        return default_composite(res.ref_sec(t))
    raise ValueError(t)


def default_composite(sec: T.Sec) -> dict:
    named = [(n, t) for n, t in sec.fields if n is not None]
    if sec.union:
        return {named[0][0]: default_value(sec.res, named[0][1])}
    return {n: default_value(sec.res, t) for n, t in named}


def encode_value(w: Writer, res: T.Resolver, t: list, v, path: str) -> None:
    k = t[0]
    if k == "bool":
        w.bits(1 if v else 0, 1)
    elif k in ("u", "i", "byte", "utf8"):
        w.bits(int_bits(t, v), T.bits_of(t))
    elif k == "f":
        w.bits(float_bits(t[1], t[2], v), t[1])
    elif k == "void":
        w.bits(0, t[1])
    elif k in ("arr", "var"):
        el = t[1]
        if el[0] == "utf8":
            items = list(v.encode("utf-8")) if isinstance(v, str) else list(v)
        elif el[0] == "byte":
            items = list(v.encode("utf-8")) if isinstance(v, str) else list(v)
        else:
            items = list(v)
        if k == "arr":
            if not (len(items) == t[2]):  # not an assert statement: workers may run under python -O
                raise AssertionError((path, len(items), t[2]))
        else:
            if not (len(items) <= t[2]):  # not an assert statement: workers may run under python -O
                raise AssertionError((path, len(items), t[2]))
            w.ctl.append(("len", w.n, T.prefix_width(t[2]), t[2]))
            w.bits(len(items), T.prefix_width(t[2]))
        for i, x in enumerate(items):
            w.marks.append(("%s[%d]" % (path, i), w.n))
            encode_value(w, res, el, x, "%s[%d]" % (path, i))
    elif k == "ref":
        encode_composite(w, res.ref_sec(t), v, path, header=True)
    else:
        raise ValueError(t)


def encode_composite(w: Writer, sec: T.Sec, v: dict, path: str, header: bool) -> None:
    w.align(8)
    if not sec.sealed and header:
        inner = Writer()
        encode_composite(inner, sec, v, path, header=False)
        payload = inner.bytes()
        w.ctl.append(("hdr", w.n, T.HEADER_WIDTH, len(payload)))
        w.bits(len(payload), T.HEADER_WIDTH)
        base = w.n
        for p, off in inner.marks:
            w.marks.append((p, base + off))
        for kk, off, ww, lim in inner.ctl:
            w.ctl.append((kk, base + off, ww, lim))
        w.bits(int.from_bytes(payload, "little"), 8 * len(payload))
        return
    named = [(n, t) for n, t in sec.fields]
    if sec.union:
        (name, val), = v.items()
        idx = [n for n, _ in named].index(name)
        w.ctl.append(("tag", w.n, T.tag_width(len(named)), len(named) - 1))
        w.bits(idx, T.tag_width(len(named)))
        w.marks.append((path + "." + name, w.n))
        encode_value(w, sec.res, named[idx][1], val, path + "." + name)
    else:
        for fi, (n, t) in enumerate(named):
            w.align(T.align(sec.res, t))
            if n is None:
                w.marks.append((path + ".<pad%d>" % fi, w.n))
                w.bits(0, t[1])
            else:
                w.marks.append((path + "." + n, w.n))
                val = v[n] if n in v else default_value(sec.res, t)
                encode_value(w, sec.res, t, val, path + "." + n)
    w.align(8)


def encode(res: T.Resolver, key: str, sec_index: int, v: dict, with_header: bool = False) -> tuple[bytes, list]:
    sec = res.sec(key, sec_index)
    w = Writer()
    encode_composite(w, sec, v, "", header=with_header)
    return w.bytes(), w.marks


def encode_ctl(res: T.Resolver, key: str, sec_index: int, v: dict, with_header: bool = False):
    sec = res.sec(key, sec_index)
    w = Writer()
    encode_composite(w, sec, v, "", header=with_header)
    return w.bytes(), w.marks, w.ctl


# ---- decoding ----------------------------------------------------------------------------------------------------------
class Reader:
    def __init__(self, data: bytes):
        self.acc = int.from_bytes(data, "little")
        self.total = 8 * len(data)
        self.pos = 0
        self.end = None  # window end (bounded sub-reader) or None

    def bits(self, n: int) -> int:
        # bits at or beyond the window end read as zero; bits beyond the data read as zero
        hard = self.total if self.end is None else min(self.end, self.total)
        avail = max(0, min(n, hard - self.pos))
        v = (self.acc >> self.pos) & ((1 << avail) - 1) if avail > 0 else 0
        self.pos += n
        return v

    def align(self, a: int) -> None:
        self.pos = -(-self.pos // a) * a

    def remaining(self) -> int:
        hard = self.total if self.end is None else self.end
        return max(0, hard - self.pos)


def decode_value(r: Reader, res: T.Resolver, t: list, path: str):
    k = t[0]
    if k == "bool":
        return bool(r.bits(1))
    if k in ("u", "byte", "utf8"):
        return r.bits(T.bits_of(t))
    if k == "i":
        raw = r.bits(t[1])
        return raw - (1 << t[1]) if raw >= (1 << (t[1] - 1)) else raw
    if k == "f":
        raw = r.bits(t[1])
        return struct.unpack(FMT[t[1]], raw.to_bytes(t[1] // 8, "little"))[0]
    if k == "void":
        r.bits(t[1])
        return None
    if k in ("arr", "var"):
        if k == "arr":
            n = t[2]
        else:
            n = r.bits(T.prefix_width(t[2]))
            if n > t[2]:
                raise Reject("array-length", path)
        items = [decode_value(r, res, t[1], "%s[%d]" % (path, i)) for i in range(n)]
        if t[1][0] == "utf8":
            try:
                return bytes(items).decode("utf-8")
            except UnicodeDecodeError:
                raise Reject("utf8", path) from None
        if t[1][0] == "byte":
            return bytes(items)
        return items
    if k == "ref":
        return decode_composite(r, res.ref_sec(t), path, header=True)
    raise ValueError(t)


def decode_composite(r: Reader, sec: T.Sec, path: str, header: bool):
    r.align(8)
    if not sec.sealed and header:
        nbytes = r.bits(T.HEADER_WIDTH)
        if nbytes * 8 > r.remaining():
            raise Reject("delimiter-header", path)
        sub = Reader(b"")
        sub.acc, sub.total, sub.pos = r.acc, r.total, r.pos
        sub.end = r.pos + nbytes * 8
        out = decode_composite(sub, sec, path, header=False)
        r.pos += nbytes * 8
        return out
    named = list(sec.fields)
    if sec.union:
        tag = r.bits(T.tag_width(len(named)))
        if tag >= len(named):
            raise Reject("union-tag", path)
        n, t = named[tag]
        val = decode_value(r, sec.res, t, path + "." + n)
        r.align(8)
        return {n: val}
    out = {}
    for n, t in named:
        r.align(T.align(sec.res, t))
        if n is None:
            r.bits(t[1])
        else:
            out[n] = decode_value(r, sec.res, t, path + "." + n)
    r.align(8)
    return out


def decode(res: T.Resolver, key: str, sec_index: int, data: bytes, with_header: bool = False):
    sec = res.sec(key, sec_index)
    r = Reader(data)
    return decode_composite(r, sec, "", header=with_header)


# ---- canonical comparison --------------------------------------------------------------------------------------------------
def norm(v):
    """Canonical, comparable form of a decoded object (NaN-aware, sign-of-zero-aware)."""
    if isinstance(v, bool):
        return v
    if isinstance(v, float):
        if math.isnan(v):
            return "nan"
        return "f:" + repr(v)
    if isinstance(v, int):
        return v
    if isinstance(v, (bytes, bytearray)):
        return "b:" + bytes(v).hex()
    if isinstance(v, str):
        return "s:" + v
    if isinstance(v, (list, tuple)):
        return [norm(x) for x in v]
    if isinstance(v, dict):
        return {k: norm(x) for k, x in v.items()}
    if v is None:
        return None
    raise TypeError(type(v))
