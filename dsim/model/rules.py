"""The static rules (C05), constant rules (C12) and cross-definition rules (C11) as predicates over abstract
definitions. No pydsdl import. Used (a) to validate generated / shrunk scenarios ("un-faulted scenarios are valid by
construction" is checked, not assumed), (b) as the must-reject / must-accept oracle of C05, C11, C12.
"""
from __future__ import annotations
import re
from fractions import Fraction
from . import types as T

_RESERVED_WORDS = {
    "truncated", "saturated", "true", "false", "bool", "optional", "aligned", "const", "struct", "super", "template",
    "enum", "self", "and", "or", "not", "auto", "type", "con", "prn", "aux", "nul",
}
_RESERVED_PATTERNS = [re.compile(p) for p in (r"void\d*$", r"u?int\d*$", r"u?q\d+_\d+$", r"float\d*$", r"com\d$", r"lpt\d$", r"_.*_$")]
_NAME_RE = re.compile(r"[a-zA-Z_][a-zA-Z0-9_]*$")


def name_ok(name: str) -> bool:
    if not name or not _NAME_RE.match(name):
        return False
    low = name.lower()
    if low in _RESERVED_WORDS:
        return False
    return not any(p.match(low) for p in _RESERVED_PATTERNS)


def type_problems(t: list, ctx: str) -> list[str]:
    """ctx: 'field' (struct field), 'variant' (union field), 'arr' / 'var' (array element), 'const'."""
    k = t[0]
    out = []
    if k == "bool":
        pass
    elif k == "u":
        if not 1 <= t[1] <= 64:
            out.append("width")
    elif k == "i":
        if not 2 <= t[1] <= 64:
            out.append("width")
        if len(t) > 2 and t[2] == "t":
            out.append("cast")
    elif k == "f":
        if t[1] not in (16, 32, 64):
            out.append("width")
    elif k == "void":
        if not 1 <= t[1] <= 64:
            out.append("width")
        out.append("void-placement")  # a void *type* in any named position is illegal; padding uses item "p"
    elif k == "utf8":
        if ctx != "var":
            out.append("utf8-placement")
    elif k == "byte":
        if ctx not in ("arr", "var"):
            out.append("byte-placement")
    elif k in ("arr", "var"):
        if ctx in ("arr", "var"):
            out.append("nested-array")
        if t[2] < 1:
            out.append("capacity")
        out += type_problems(t[1], k)
    elif k == "ref":
        pass
    else:
        out.append("unknown-type")
    if ctx == "const" and k not in ("bool", "u", "i", "f"):
        out.append("const-type")
    return out


def const_value_ok(t: list, v) -> bool:
    if t[0] == "bool":
        return isinstance(v, bool)
    if isinstance(v, bool) or v is None:
        return False
    if isinstance(v, str):
        # a string literal: exactly one ASCII character, only for uint8
        return t[0] == "u" and t[1] == 8 and len(v) == 1 and ord(v) < 128  # exactly one ASCII character
    f = Fraction(v[0], v[1])
    if t[0] in ("u", "i"):
        if f.denominator != 1:
            return False
    elif t[0] != "f":
        return False
    lo, hi = T.value_range(t)
    return lo <= f <= hi


def deprecated_of(res: T.Resolver, t: list) -> bool:
    if t[0] in ("arr", "var"):
        return deprecated_of(res, t[1])
    if t[0] == "ref":
        d = res.defs.get(T.key_of(t[1], t[2], t[3]))
        return bool(d and d.get("dep"))
    return False


STD_ROOTS = {"uavcan", "cyphal"}


def port_problems(d: dict, allow_unregulated: bool) -> list[str]:
    p = d.get("port")
    if p is None:
        return []
    svc = T.is_service(d)
    if not (0 <= p <= (511 if svc else 8191)):
        return ["port-range"]
    if allow_unregulated:
        return []
    std = d["name"].split(".")[0] in STD_ROOTS
    if svc:
        lo, hi = (384, 511) if std else (256, 383)
    else:
        lo, hi = (7168, 8191) if std else (6144, 7167)
    return [] if lo <= p <= hi else ["port-unregulated"]


def static_problems(res: T.Resolver, d: dict, allow_unregulated: bool = False) -> list[str]:
    out: list[str] = []
    comps = d["name"].split(".")
    if len(comps) < 2:
        out.append("no-root")
    for c in comps:
        if not name_ok(c):
            out.append("name:" + c)
    M, m = d["ver"]
    if not (0 <= M <= 255 and 0 <= m <= 255 and M + m > 0):
        out.append("version")
    out += port_problems(d, allow_unregulated)
    if len(d["secs"]) not in (1, 2):
        out.append("sections")
    for si, s in enumerate(d["secs"]):
        names: set[str] = set()
        nfields = 0
        for it in s["items"]:
            k = it[0]
            if k == "raw":
                continue
            if k == "p":
                if not 1 <= it[1] <= 64:
                    out.append("width")
                if s.get("union"):
                    out.append("union-padding")
                continue
            t, name = it[1], it[2]
            if not name_ok(name):
                out.append("attr-name:" + name)
            if name in names:
                out.append("attr-dup:" + name)
            names.add(name)
            if k == "f":
                nfields += 1
                out += type_problems(t, "variant" if s.get("union") else "field")
            else:
                out += type_problems(t, "const")
                if not type_problems(t, "const"):
                    try:
                        val = T.item_value(res, d, si, it)
                    except KeyError:
                        out.append("const-undefined:" + name)
                        val = None
                    if val is not None and not const_value_ok(t, val):
                        out.append("const-value:" + name)
                if isinstance(it[4], dict) and "xref" in it[4]:
                    xk = it[4]["xref"][0]
                    if xk not in res.defs:
                        out.append("undefined:" + xk)
            for r in T.refs_in(t):
                if r not in res.defs:
                    out.append("undefined:" + r)
                elif T.is_service(res.defs[r]):
                    out.append("service-as-type:" + r)
            if deprecated_of(res, t) and not d.get("dep"):
                out.append("deprecated-use:" + name)
        if s.get("union") and nfields < 2:
            out.append("union-arity")
        seal = s.get("seal")
        if seal is None:
            out.append("no-seal")
        elif seal != "sealed":
            if isinstance(seal, str):
                out.append("seal-raw")
            elif not out:
                try:
                    inner = T.Sec(res, d, si).inner_extent
                except Exception:
                    inner = None
                if seal % 8 != 0 or seal < 0:
                    out.append("extent-multiple")
                elif inner is not None and seal < inner:
                    out.append("extent-small")
    return out


# ---- C11 --------------------------------------------------------------------------------------------------------------
def _sec_mode(res: T.Resolver, d: dict, si: int):
    sec = T.Sec(res, d, si)
    return (sec.sealed, sec.extent)


def pair_problems(res: T.Resolver, a: dict, b: dict) -> list[str]:
    """Rules for two definitions of the same full name and major version (a != b)."""
    out = []
    if T.is_service(a) != T.is_service(b):
        return ["kind"]
    pa, pb = a.get("port"), b.get("port")
    if (pa is None) == (pb is None):
        if pa != pb:
            out.append("port-changed")
    else:
        newer = a if a["ver"][1] > b["ver"][1] else b
        if newer.get("port") is None:
            out.append("port-removed")
    if a["ver"][0] > 0:
        for si in range(len(a["secs"])):
            sa, sb = _sec_mode(res, a, si), _sec_mode(res, b, si)
            if sa[1] != sb[1]:
                out.append("extent")
            elif sa[0] != sb[0]:
                out.append("sealing")
    return out


def port_collision(a: dict, b: dict) -> bool:
    """Two *direct* definitions that must not share a port-ID but do."""
    if a.get("port") is None or b.get("port") is None or a["port"] != b["port"]:
        return False
    if T.is_service(a) != T.is_service(b):
        return False
    if a["name"] != b["name"]:
        return True
    return a["ver"][0] != b["ver"][0] and a["ver"][0] > 0 and b["ver"][0] > 0


def cross_problems(res: T.Resolver, direct: list[str], transitive: list[str]) -> list[str]:
    out = []
    dd = [res.defs[k] for k in direct]
    for i, a in enumerate(dd):
        for b in dd[i + 1:]:
            if port_collision(a, b):
                out.append("port-collision:%s/%s" % (T.def_key(a), T.def_key(b)))
    allk = [res.defs[k] for k in list(direct) + list(transitive)]
    for i, a in enumerate(allk):
        for b in allk[i + 1:]:
            if a["name"] == b["name"] and a["ver"][0] == b["ver"][0] and a is not b:
                for p in pair_problems(res, a, b):
                    out.append("%s:%s/%s" % (p, T.def_key(a), T.def_key(b)))
    return out


def workspace_problems(uni, allow_unregulated: bool = False) -> list[str]:
    """Everything that makes an un-faulted generated workspace invalid (any read of any root would be affected)."""
    out = []
    seen: dict[str, str] = {}
    for k, d in uni.defs.items():
        for p in static_problems(uni.res, d, allow_unregulated):
            out.append("%s: %s" % (k, p))
        low = d["name"].lower()
        if low in seen and seen[low] != d["name"]:
            out.append("%s: case-collision with %s" % (k, seen[low]))
        seen[low] = d["name"]
    if uni.dups:
        out.append("duplicate keys: %s" % uni.dups)
    out += cross_problems(uni.res, list(uni.defs), [])
    # a reference cycle makes every member undefined
    for k in uni.defs:
        stack = [(k, iter(T.def_refs(uni.defs[k])))]
        path = {k}
        while stack:
            node, it = stack[-1]
            nxt = next(it, None)
            if nxt is None:
                stack.pop()
                path.discard(node)
                continue
            if nxt in path:
                out.append("%s: cycle" % k)
                stack = []
                break
            if nxt in uni.defs:
                path.add(nxt)
                stack.append((nxt, iter(T.def_refs(uni.defs[nxt]))))
    return out
