"""Abstract type language and reference layout (Specification as stated in the property texts). No pydsdl import.

Type (JSON lists):
  ["bool"] ["u",N,"s"|"t"] ["i",N] ["f",N,"s"|"t"] ["byte"] ["utf8"] ["void",N]
  ["arr",T,n] ["var",T,n(,"lt")] ["ref",full_name,major,minor(,"rel")]
Definition (JSON dict):
  {"name": "root.ns.Short", "ver": [M, m], "port": None|int, "ext": "dsdl"|"uavcan", "dep": bool,
   "secs": [ {"union": bool, "seal": "sealed"|int|None, "hdr": str|None, "items": [item...]} (x2 for a service) ]}
  item: ["f",T,name,doc] | ["p",bits,doc] | ["c",T,name,literal,value,doc] | ["raw",text]
        value: bool | [num, den]
"""
from __future__ import annotations
from fractions import Fraction
from . import blsref as B


def key_of(name: str, major: int, minor: int) -> str:
    return "%s.%d.%d" % (name, major, minor)


def def_key(d: dict) -> str:
    return key_of(d["name"], d["ver"][0], d["ver"][1])


def is_service(d: dict) -> bool:
    return len(d["secs"]) == 2


def file_name(d: dict) -> str:
    short = d["name"].split(".")[-1]
    base = "%s.%d.%d.%s" % (short, d["ver"][0], d["ver"][1], d.get("ext", "dsdl"))
    return ("%d.%s" % (d["port"], base)) if d.get("port") is not None else base


def rel_path(d: dict) -> str:
    """Path relative to the *parent* of the root namespace directory, e.g. root/ns/Short.1.0.dsdl"""
    comps = d["name"].split(".")[:-1]
    return "/".join(comps + [file_name(d)])


def _smallest_std(n: int) -> int:
    for w in (8, 16, 32, 64):
        if n <= w:
            return w
    raise ValueError(n)


def prefix_width(capacity: int) -> int:
    """Smallest of 8/16/32/64 bits that can hold the capacity."""
    return _smallest_std(max(1, capacity.bit_length()))


def tag_width(variants: int) -> int:
    """Smallest of 8/16/32/64 bits that can hold the largest variant index."""
    return _smallest_std(max(1, (variants - 1).bit_length()))


HEADER_WIDTH = 32


def item_value(res: "Resolver", d: dict, si: int, it: list):
    """Concrete value of a constant item: bool | [num, den]. A derived constant refers to an earlier constant of the same
    section ({"ref": NAME, "add": n}) or to a constant of another message definition ({"xref": [key, NAME], "add": n})."""
    v = it[4]
    if isinstance(v, dict) and "ref" in v:
        for prev in d["secs"][si]["items"]:
            if prev is it:
                break
            if prev[0] == "c" and prev[2] == v["ref"]:
                b = item_value(res, d, si, prev)
                return [b[0] + int(v.get("add", 0)) * b[1], b[1]]
        raise KeyError("constant %s is not defined before its use" % v["ref"])
    if isinstance(v, dict) and "xref" in v:
        key, name = v["xref"]
        od = res.defs[key]
        for prev in od["secs"][0]["items"]:
            if prev[0] == "c" and prev[2] == name:
                b = item_value(res, od, 0, prev)
                return [b[0] + int(v.get("add", 0)) * b[1], b[1]]
        raise KeyError("constant %s.%s is not defined" % (key, name))
    return v


class Resolver:
    """Maps reference keys to definitions (one abstract namespace universe)."""

    def __init__(self, defs: dict[str, dict]):
        self.defs = defs
        self._sec_cache: dict[tuple[str, int], "Sec"] = {}

    def sec(self, key: str, index: int = 0) -> "Sec":
        ck = (key, index)
        if ck not in self._sec_cache:
            d = self.defs[key]
            self._sec_cache[ck] = Sec(self, d, index)
        return self._sec_cache[ck]

    def ref_sec(self, t: list) -> "Sec":
        return self.sec(key_of(t[1], t[2], t[3]), 0)


class Sec:
    """One schema section (a message, or the request / response of a service) with its reference layout."""

    def __init__(self, res: Resolver, d: dict, index: int):
        self.res = res
        self.d = d
        s = d["secs"][index]
        self.union = bool(s.get("union"))
        self.seal = s.get("seal")
        self.fields: list[tuple[str | None, list]] = []  # (name or None for padding, type)
        self.consts: list[tuple[str, list, object]] = []
        self.docs: dict[str, str] = {}
        for it in s["items"]:
            if it[0] == "f":
                self.fields.append((it[2], it[1]))
            elif it[0] == "p":
                self.fields.append((None, ["void", it[1]]))
            elif it[0] == "c":
                self.consts.append((it[2], it[1], item_value(res, d, index, it)))
        self.inner = self._inner_node()
        self.inner_extent = self.inner.hi
        self.sealed = self.seal == "sealed"
        self.extent = self.inner_extent if self.sealed else int(self.seal) if self.seal is not None else None

    # ---- layout -------------------------------------------------------------------------------------------------
    def _inner_node(self) -> B.Node:
        ftypes = [t for _, t in self.fields]
        if self.union:
            if len(ftypes) == 0:
                body: B.Node = B.Leaf({0})
            elif len(ftypes) == 1:
                body = bls(self.res, ftypes[0])
            else:
                body = B.Cat(B.Leaf({tag_width(len(ftypes))}), B.Uni(*[bls(self.res, t) for t in ftypes]))
        else:
            body = B.Leaf({0})
            first = True
            for t in ftypes:
                if first:
                    body = bls(self.res, t)
                    first = False
                else:
                    body = B.Cat(B.Pad(body, align(self.res, t)), bls(self.res, t))
        return B.Pad(body, 8)

    def node(self) -> B.Node:
        """Length set of the type as seen by a container (delimited: header + {0,8,..,extent})."""
        if self.sealed:
            return self.inner
        if not (self.extent is not None):  # not an assert statement: workers may run under python -O
            raise AssertionError('self.extent is not None')
        return B.Cat(B.Leaf({HEADER_WIDTH}), B.Rng(B.Leaf({8}), self.extent // 8))

    def offsets(self, base: B.Node) -> list[tuple[str | None, list, B.Node]]:
        """Start-bit sets of every field for a base offset set (padded to the composite alignment first)."""
        if not self.sealed:
            base = B.Cat(base, B.Leaf({HEADER_WIDTH}))
        off: B.Node = B.Pad(base, 8)
        out = []
        if self.union:
            off = B.Cat(off, B.Leaf({tag_width(len(self.fields))}))
            for n, t in self.fields:
                out.append((n, t, off))
            return out
        for n, t in self.fields:
            off = B.Pad(off, align(self.res, t))
            out.append((n, t, off))
            off = B.Cat(off, bls(self.res, t))
        return out


def align(res: Resolver, t: list) -> int:
    k = t[0]
    if k in ("arr", "var"):
        return align(res, t[1])
    if k == "ref":
        return 8
    return 1


def bits_of(t: list) -> int:
    k = t[0]
    if k == "bool":
        return 1
    if k in ("byte", "utf8"):
        return 8
    return int(t[1])


def bls(res: Resolver, t: list) -> B.Node:
    k = t[0]
    if k == "arr":
        return B.Rep(bls(res, t[1]), t[2])
    if k == "var":
        return B.Cat(B.Leaf({prefix_width(t[2])}), B.Rng(bls(res, t[1]), t[2]))
    if k == "ref":
        return res.ref_sec(t).node()
    return B.Leaf({bits_of(t)})


# ---- normalized textual form (what the property calls "normalized type") -------------------------------------------
def type_str(t: list) -> str:
    k = t[0]
    if k == "bool":
        return "bool"
    if k == "u":
        return "%s uint%d" % ("saturated" if t[2] == "s" else "truncated", t[1])
    if k == "i":
        return "saturated int%d" % t[1]
    if k == "f":
        return "%s float%d" % ("saturated" if t[2] == "s" else "truncated", t[1])
    if k in ("byte", "utf8"):
        return k
    if k == "void":
        return "void%d" % t[1]
    if k == "arr":
        return "%s[%d]" % (type_str(t[1]), t[2])
    if k == "var":
        return "%s[<=%d]" % (type_str(t[1]), t[2])
    if k == "ref":
        return "%s.%d.%d" % (t[1], t[2], t[3])
    raise ValueError(t)


# ---- value ranges (C12) -------------------------------------------------------------------------------------------
FLOAT_MAX = {
    16: Fraction(65504),
    32: (2 - Fraction(1, 2**23)) * 2**127,
    64: (2 - Fraction(1, 2**52)) * 2**1023,
}


def value_range(t: list) -> tuple[Fraction, Fraction]:
    k = t[0]
    if k in ("u", "byte", "utf8"):
        return Fraction(0), Fraction(2 ** bits_of(t) - 1)
    if k == "i":
        return Fraction(-(2 ** (t[1] - 1))), Fraction(2 ** (t[1] - 1) - 1)
    if k == "f":
        return -FLOAT_MAX[t[1]], FLOAT_MAX[t[1]]
    raise ValueError(t)


def refs_in(t: list):
    if t[0] in ("arr", "var"):
        yield from refs_in(t[1])
    elif t[0] == "ref":
        yield key_of(t[1], t[2], t[3])


def def_refs(d: dict) -> list[str]:
    out = []
    for s in d["secs"]:
        for it in s["items"]:
            if it[0] in ("f", "c"):
                for r in refs_in(it[1]):
                    if r not in out:
                        out.append(r)
                if it[0] == "c" and isinstance(it[4], dict) and "xref" in it[4] and it[4]["xref"][0] not in out:
                    out.append(it[4]["xref"][0])
            elif it[0] == "raw" and len(it) > 2 and it[2]:
                for r in it[2]:  # explicit references made by a raw line (e.g. in an expression)
                    if r not in out:
                        out.append(r)
    return out
