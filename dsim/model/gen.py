"""Constructive generator of *valid* abstract workspaces: the static rules (C05) and the cross-definition
rules (C11) in generative form. Only this module (and the per-check generators) consume randomness."""
from __future__ import annotations
import random
from . import types as T

ROOT_NAMES = ["alpha", "beta", "gamma", "delta", "omega", "vnd", "zeta", "kappa", "Rho", "sigma_1"]
NS_NAMES = ["sub", "deep", "inner", "aux_", "node", "x1", "Part", "misc"]
TYPE_NAMES = ["Msg", "Item", "Point", "Rec", "Blob", "State", "Abc", "Cfg", "Node_1", "Zed", "Info", "Unit", "Qux"]
FIELD_NAMES = ["a", "b", "c", "value", "x", "y", "count", "flag", "data", "name_", "_z", "F1", "item", "w", "v2"]
CONST_NAMES = ["MAX", "MIN", "K", "LIMIT", "ZERO", "ONE", "MODE_A", "MODE_B", "C1"]
WIDTHS = [1, 2, 3, 4, 7, 8, 9, 12, 15, 16, 17, 24, 31, 32, 33, 48, 63, 64]
DOC_WORDS = ["alpha", "note", "units: m/s", "see above", "x", "[0, 1]", "TODO", "the value", "a  b", "end."]


from fractions import Fraction as Fraction_

FLOAT_EXPRS = [("10 ** -3", [1, 1000]), ("3 ** -1", [1, 3]), ("2 ** -2", [1, 4]), ("1 / 10 ** 3", [1, 1000]), ("1e-3", [1, 1000]), ("(-2) ** 3", [-8, 1]),
               ("2.5e1", [25, 1]), ("0x10 / 0b100", [4, 1]), ("-(1 / 8)", [-1, 8]), ("(10 ** -3) * (10 ** 3)", [1, 1]), ("1.5 * (2 ** -1)", [3, 4]),
               ("(-3) ** -3", [-1, 27]), ("7 ** -2", [1, 49]), ("(1 / 3) ** 2", [1, 9]), ("(2 / 3) ** -2", [9, 4]), ("10 ** -1 + 10 ** -2", [11, 100]),
               ("2 ** -52", [1, 2**52]), ("5 * 2 ** -74", [5, 2**74]), ("1 / 2 ** 90", [1, 2**90]), ("3 * 2 ** -60 + 1", [3 + 2**60, 2**60]), ("(2 ** -30) / 5 ** 9", [1, 2**30 * 5**9]),
               ("1_0.0_0", [10, 1]), (".5", [1, 2]), ("5.", [5, 1]), ("1E+2", [100, 1]), ("12e-1", [6, 5])]
INT_EXPRS = [("2 ** 3", [8, 1]), ("10 ** 2 - 1", [99, 1]), ("(2 ** 4) / 2", [8, 1]), ("0x0F & 0b0110", [6, 1]), ("(1 + 2) * 3", [9, 1]), ("0o17 | 0x10", [31, 1]),
             ("6 ^ 3", [5, 1]), ("(2 ** -1) * 4", [2, 1]), ("10 % 4", [2, 1]), ("-(-7)", [7, 1]), ("+3", [3, 1]), ("(10 ** -2) * 300", [3, 1]),
             ("1_000 / 1_0", [100, 1]), ("9 ** (1 / 2)", [3, 1])]


def gen_prim(rng: random.Random, allow_bool: bool = True) -> list:
    r = rng.random()
    if r < 0.12 and allow_bool:
        return ["bool"]
    if r < 0.55:
        w = rng.choice(WIDTHS) if rng.random() < 0.8 else rng.randint(1, 64)
        return ["u", w, rng.choice("st")]
    if r < 0.8:
        w = rng.choice([x for x in WIDTHS if x >= 2]) if rng.random() < 0.8 else rng.randint(2, 64)
        return ["i", w]
    return ["f", rng.choice([16, 32, 64]), rng.choice("st")]


def gen_doc(rng: random.Random) -> str:
    if rng.random() < 0.06:
        # a long comment (more than 160 / 255 characters on one line, or many lines)
        return " ".join(rng.choice(DOC_WORDS) for _ in range(rng.randint(40, 70))) if rng.random() < 0.6 else "\n".join("line %d of a long block %s" % (i, rng.choice(DOC_WORDS)) for i in range(rng.randint(12, 30)))
    n = 1 if rng.random() < 0.7 else rng.randint(2, 3)
    return "\n".join(" ".join(rng.choice(DOC_WORDS) for _ in range(rng.randint(1, 3))) for _ in range(n))


class WorkspaceGen:
    def __init__(self, rng: random.Random, **o):
        self.rng = rng
        self.o = dict(
            roots=(1, 3), defs=(2, 9), max_depth=3, p_service=0.15, p_union=0.25, p_delim=0.4, p_family=0.3,
            p_ref=0.45, p_const=0.25, p_doc=0.25, p_pad=0.15, p_dep=0.1, p_port=0.15, p_uavcan=0.1,
            p_cross_root=0.5, max_fields=5, max_cap=4, big_caps=False, p_split_root=0.0, p_rel=0.5, p_derive=0.0, p_other_root_ns=0.0,
        )
        self.o.update(o)
        self.roots: list[dict] = []
        self.defs: dict[str, dict] = {}  # key -> def, creation order
        self.root_of: dict[str, int] = {}  # key -> root index
        self.used_ports = {"m": set(), "s": set()}

    # ---------------------------------------------------------------------------------------------------------------
    def gen(self) -> dict:
        rng, o = self.rng, self.o
        nroots = rng.randint(*o["roots"])
        names = rng.sample(ROOT_NAMES, nroots)
        for i, nm in enumerate(names):
            self.roots.append({"dir": "w/d%d/%s" % (i, nm), "name": nm, "defs": []})
        if nroots >= 2 and rng.random() < o["p_split_root"]:
            # the same root namespace contributed from two directories
            self.roots[1]["name"] = self.roots[0]["name"]
            self.roots[1]["dir"] = "w/d1/%s" % self.roots[0]["name"]
        ndefs = rng.randint(*o["defs"])
        # namespaces per root
        self.ns_paths = []
        for r in self.roots:
            paths = [[]]
            for _ in range(rng.randint(0, 3)):
                base = rng.choice(paths)
                if len(base) < o["max_depth"]:
                    comp = rng.choice(NS_NAMES)
                    if rng.random() < o.get("p_other_root_ns", 0.0):
                        # a nested namespace that carries the name of ANOTHER root namespace of the workspace (or of its own root)
                        comp = rng.choice(names)
                    p = base + [comp]
                    if not any(q[: len(p)] == p or [c.lower() for c in q[: len(p)]] == [c.lower() for c in p] for q in paths):
                        paths.append(p)
            self.ns_paths.append(paths)
        guard = 0
        while len(self.defs) < ndefs and guard < ndefs * 20:
            guard += 1
            if self.defs and rng.random() < o["p_family"]:
                self._add_family_member()
            else:
                self._add_fresh()
        return {"roots": self.roots, "order": list(self.defs.keys())}

    # ---------------------------------------------------------------------------------------------------------------
    def _names_taken(self, ri: int, full_ns: str) -> set[str]:
        return {d["name"].lower() for k, d in self.defs.items()}

    def _pick_ns(self, ri: int) -> list[str]:
        return self.rng.choice(self.ns_paths[ri])

    def _add_fresh(self) -> None:
        rng = self.rng
        ri = rng.randrange(len(self.roots))
        ns = [self.roots[ri]["name"]] + self._pick_ns(ri)
        for _ in range(10):
            short = rng.choice(TYPE_NAMES)
            name = ".".join(ns + [short])
            if name.lower() not in {d["name"].lower() for d in self.defs.values()} and not self._is_namespace(name):
                break
        else:
            return
        ver = rng.choice([[1, 0], [0, 1], [1, 1], [2, 0], [0, 3], [255, 255], [3, 7]])
        self._make_def(ri, name, ver, service=rng.random() < self.o["p_service"])

    def _is_namespace(self, name: str) -> bool:
        low = name.lower()
        for ri, paths in enumerate(self.ns_paths):
            for p in paths:
                if ".".join([self.roots[ri]["name"]] + p).lower() == low:
                    return True
        return False

    def _add_family_member(self) -> None:
        """Another version of an existing name, keeping the C11 rules by construction."""
        rng = self.rng
        base = rng.choice(list(self.defs.values()))
        ri = self.root_of[T.def_key(base)]
        fam = [d for d in self.defs.values() if d["name"] == base["name"]]
        taken = {tuple(d["ver"]) for d in fam}
        service = T.is_service(base)  # same kind for the whole family (stricter than needed; keeps it simple)
        major = rng.choice([d["ver"][0] for d in fam] + [rng.randint(0, 4)])
        minor = rng.randint(0, 6)
        if (major, minor) in taken or (major, minor) == (0, 0):
            return
        same_major = [d for d in fam if d["ver"][0] == major]
        template = None
        if same_major and major >= 1:
            template = same_major[0]
        if any(d.get("port") is not None for d in fam):
            return  # keep port-ID families out of the generic generator (C11 has its own)
        self._make_def(ri, base["name"], [major, minor], service=service, template=template)

    # ---------------------------------------------------------------------------------------------------------------
    def _pool(self, deprecated: bool, ri: int) -> list[dict]:
        out = []
        for k, d in self.defs.items():
            if T.is_service(d):
                continue
            if d.get("dep") and not deprecated:
                continue
            if self.root_of[k] != ri and self.rng.random() >= self.o["p_cross_root"]:
                continue
            out.append(d)
        return out

    def gen_type(self, pool: list[dict], in_union: bool = False) -> list:
        rng, o = self.rng, self.o
        r = rng.random()

        def scalar(allow_special: str | None = None) -> list:
            if pool and rng.random() < o["p_ref"]:
                d = rng.choice(pool)
                t = ["ref", d["name"], d["ver"][0], d["ver"][1]]
                if rng.random() < o["p_rel"]:
                    t.append("rel")
                return t
            if allow_special == "var" and rng.random() < 0.2:
                return [rng.choice(["utf8", "byte"])]
            if allow_special == "arr" and rng.random() < 0.15:
                return ["byte"]
            return gen_prim(rng)

        if r < 0.55:
            return scalar()
        cap = rng.randint(1, o["max_cap"])
        if r < 0.75:
            el = scalar("arr")
            if o["big_caps"] and el[0] != "ref" and rng.random() < 0.3:
                cap = rng.choice([255, 256, 257, 65535, 65536])
            return ["arr", el, cap]
        el = scalar("var")
        if o["big_caps"] and el[0] != "ref" and rng.random() < 0.3:
            cap = rng.choice([255, 256, 65535, 65536, 2**32 - 1, 2**32])
        t = ["var", el, cap]
        if rng.random() < 0.3:
            t.append("lt")
        return t

    def gen_const(self, used: set[str]) -> list | None:
        rng = self.rng
        names = [n for n in CONST_NAMES if n.lower() not in used]
        if not names:
            return None
        name = rng.choice(names)
        t = gen_prim(rng)
        if t[0] == "bool":
            v = rng.random() < 0.5
            return ["c", t, name, "true" if v else "false", v]
        lo, hi = T.value_range(t)
        if rng.random() < 0.2:
            # initializers that are small constant expressions (negative exponents, mixed literal forms): the value is exact
            table = FLOAT_EXPRS if t[0] == "f" else INT_EXPRS
            lit, val = rng.choice(table)
            if lo <= Fraction_(val[0], val[1]) <= hi:
                return ["c", t, name, lit, list(val)]
        if t[0] == "f":
            num = rng.choice([0, 1, -1, 3, 1000, -250]); den = rng.choice([1, 2, 4, 8])
            lit = "%d.0 / %d.0" % (num, den) if den != 1 else "%d.0" % num
            return ["c", t, name, lit, [num // _g(num, den), den // _g(num, den)]]
        cands = [int(lo), int(hi), 0 if lo <= 0 else int(lo), int(hi) // 2, min(int(hi), 1), max(int(lo), -1)]
        if t[1] >= 9:
            cands += [3, 7, 10, 42, 100]
        if t[0] == "u" and t[1] == 8:
            cands += [rng.randint(32, 126), rng.randint(32, 126), 44, 65]
        v = rng.choice(cands)
        style = rng.random()
        if t == ["u", 8, "s"] or t == ["u", 8, "t"]:
            if style < 0.3 and 32 <= v < 127 and chr(v) not in "'\\":
                return ["c", t, name, "'%s'" % chr(v), [v, 1]]
        if style < 0.5 and v >= 0:
            lit = rng.choice([hex, bin, oct])(v)
        else:
            lit = str(v)
        return ["c", t, name, lit, [v, 1]]

    def gen_section(self, deprecated: bool, ri: int, template_sec: dict | None = None, allow_delim: bool = True) -> dict:
        rng, o = self.rng, self.o
        pool = self._pool(deprecated, ri)
        union = rng.random() < o["p_union"]
        nf = rng.randint(2, max(2, o["max_fields"])) if union else rng.randint(0, o["max_fields"])
        items: list[list] = []
        used: set[str] = set()
        for _ in range(nf):
            if not union and rng.random() < o["p_pad"]:
                it = ["p", rng.choice([1, 3, 7, 8, 16, 33, 64])]
                if rng.random() < o["p_doc"]:
                    it.append(gen_doc(rng))
                items.append(it)
                continue
            names = [n for n in FIELD_NAMES if n.lower() not in used]
            if not names:
                break
            name = rng.choice(names)
            used.add(name.lower())
            it = ["f", self.gen_type(pool, union), name]
            if rng.random() < o["p_doc"]:
                it.append(gen_doc(rng))
            items.append(it)
        if union and sum(1 for it in items if it[0] == "f") < 2:
            union = False
        # constants anywhere between the fields
        for _ in range(3):
            if rng.random() < o["p_const"]:
                c = self.gen_const(used)
                if c:
                    used.add(c[2].lower())
                    if rng.random() < o["p_doc"]:
                        c.append(gen_doc(rng))
                    items.insert(rng.randint(0, len(items)), c)
        self._derive_constants(items, deprecated, ri, pool)
        sec = {"union": union, "items": items, "hdr": gen_doc(rng) if rng.random() < o["p_doc"] else None, "seal": "sealed"}
        return sec

    @staticmethod
    def _is_base(it: list) -> bool:
        """A plain integer constant that derived constants may refer to (and whose value a revision may change)."""
        return it[0] == "c" and it[1][0] in ("u", "i") and it[1][1] >= 9 and isinstance(it[4], list) and it[4][1] == 1 and 0 <= it[4][0] <= 100 and not it[3].startswith("'")

    def _derive_constants(self, items: list, deprecated: bool, ri: int, pool: list) -> None:
        """Some integer constants become expressions over an earlier constant of the same section (NAME + n) or over a
        constant of another message definition (ns.Type.M.m.NAME + n): values are then computed, not stored."""
        rng, o = self.rng, self.o
        if o.get("p_derive", 0.0) <= 0:
            return
        seen = []
        for it in items:
            if it[0] != "c":
                continue
            if it[1][0] in ("u", "i") and it[1][1] >= 9 and isinstance(it[4], list) and rng.random() < o["p_derive"]:
                add = rng.randint(0, 20)
                if seen and rng.random() < 0.7:
                    base = rng.choice(seen)
                    it[4] = {"ref": base[2], "add": add}
                    it[3] = rng.choice(["%s + %d", "%d + %s", "%s * 1 + %d"]) % ((base[2], add) if rng.random() < 2 else (add, base[2])) if False else ("%s + %d" % (base[2], add))
                else:
                    cands = [(d, c) for d in pool if len(d["secs"]) == 1 and (deprecated or not d.get("dep")) for c in d["secs"][0]["items"] if self._is_base(c)]
                    if cands:
                        d, c = rng.choice(cands)
                        it[4] = {"xref": [T.def_key(d), c[2]], "add": add}
                        it[3] = "%s.%d.%d.%s + %d" % (d["name"], d["ver"][0], d["ver"][1], c[2], add)
            if self._is_base(it):
                seen.append(it)

    def _finish_seal(self, d: dict, template: dict | None) -> None:
        """Decide sealing after the body is known. Same (name, major>=1) => same sealing and extent."""
        rng, o = self.rng, self.o
        tmp = dict(self.defs)
        tmp[T.def_key(d)] = d
        res = T.Resolver(tmp)
        for si, s in enumerate(d["secs"]):
            inner = T.Sec(res, d, si).inner_extent
            if template is not None:
                ts = template["secs"][si]
                if ts["seal"] == "sealed":
                    # must be sealed with the same extent: copy the field layout of the template, keep own consts/docs
                    s["items"] = [it for it in s["items"] if it[0] == "c"]
                    keep = [list(it) for it in ts["items"] if it[0] in ("f", "p")]
                    names = {it[2].lower() for it in keep if it[0] == "f"}
                    s["items"] = [it for it in s["items"] if it[2].lower() not in names]
                    s["items"] = keep + s["items"]
                    s["union"] = ts["union"]
                    s["seal"] = "sealed"
                else:
                    if inner <= ts["seal"]:
                        s["seal"] = ts["seal"]
                    else:
                        s["items"] = [list(it) for it in ts["items"]]
                        s["union"] = ts["union"]
                        s["seal"] = ts["seal"]
            elif rng.random() < o["p_delim"]:
                s["seal"] = inner + 8 * rng.choice([0, 0, 1, 2, 5, 16])

    def _make_def(self, ri: int, name: str, ver: list[int], service: bool, template: dict | None = None) -> None:
        rng, o = self.rng, self.o
        dep = rng.random() < o["p_dep"]
        if template is not None:
            # deprecation must allow everything the (possibly copied) template fields reference
            dep = dep or bool(template.get("dep"))
        d = {"name": name, "ver": ver, "port": None, "ext": "uavcan" if rng.random() < o["p_uavcan"] else "dsdl", "dep": dep,
             "secs": [self.gen_section(dep, ri) for _ in range(2 if service else 1)]}
        if service and o.get("p_derive", 0.0) > 0 and rng.random() < 0.5:
            # the same constant name in the request and in the response with different values, each used by a derived constant
            # of its own section (identifier scope ends at the service response marker)
            for si, base in enumerate(rng.sample(range(1, 90), 2)):
                items = d["secs"][si]["items"]
                if not any(it[0] in ("f", "c") and it[2].lower() in ("scope_k", "scope_d") for it in items):
                    items.append(["c", ["u", 16, "s"], "SCOPE_K", str(base), [base, 1]])
                    if rng.random() < 0.5:
                        items.append(["f", ["bool"], "scope_f%d" % si]) if not d["secs"][si].get("union") and not any(it[0] == "f" and it[2] == "scope_f%d" % si for it in items) else None
                    add = rng.randint(1, 9)
                    items.append(["c", ["u", 16, "s"], "SCOPE_D", "SCOPE_K + %d" % add, {"ref": "SCOPE_K", "add": add}])
        self._finish_seal(d, template)
        if rng.random() < o["p_port"] and template is None and not any(x["name"] == name for x in self.defs.values()):
            kind = "s" if service else "m"
            lo, hi = (256, 383) if service else (6144, 7167)
            if self.roots[ri]["name"] in ("uavcan", "cyphal"):
                lo, hi = (384, 511) if service else (7168, 8191)
            for _ in range(5):
                p = rng.choice([lo, hi, rng.randint(lo, hi)])
                if p not in self.used_ports[kind]:
                    self.used_ports[kind].add(p)
                    d["port"] = p
                    break
        k = T.def_key(d)
        self.defs[k] = d
        self.root_of[k] = ri
        self.roots[ri]["defs"].append(d)


def _g(a: int, b: int) -> int:
    from math import gcd
    return gcd(a, b) or 1


def revise_constants(ws: dict, seed: int):
    """A revision of the workspace in which every plain base constant (see WorkspaceGen._is_base) gets another value; derived
    constants follow. Names, types and layouts are unchanged. Returns None if nothing changes."""
    import copy
    rng = random.Random(seed ^ 0xC0175)
    ws2 = copy.deepcopy(ws)
    changed = False
    for r in ws2["roots"]:
        for d in r["defs"]:
            for s in d["secs"]:
                for it in s["items"]:
                    if WorkspaceGen._is_base(it):
                        new = (it[4][0] + rng.randint(1, 50)) % 101
                        it[4] = [new, 1]
                        it[3] = str(new)
                        changed = True
    return ws2 if changed else None


def gen_workspace(rng: random.Random, **o) -> dict:
    return WorkspaceGen(rng, **o).gen()


def gen_fmt(rng: random.Random, d: dict, rich: bool = True) -> dict:
    """A random formatting vector for definition d (semantically irrelevant by the text of C03)."""
    f: dict = {}
    if rng.random() < 0.25:
        f["crlf"] = True
    if rng.random() < 0.35:
        f["final_nl"] = False
    if rng.random() < 0.3:
        f["gap"] = rng.choice(["  ", "\t", " \t ", "   "])
    if rng.random() < 0.2:
        f["agap"] = rng.choice([" ", "\t"])
    if rng.random() < 0.25:
        f["trail"] = rng.choice([" ", "\t", "  \t"])
    if rng.random() < 0.5:
        f["doc_same"] = False
    if rng.random() < 0.2:
        f["tight_hash"] = True
    if rng.random() < 0.2:
        f["sat_x"] = True
    if rng.random() < 0.2:
        f["cgap"] = rng.choice(["\t", "  ", "\t ", " \t", "\t\t"])
    if rng.random() < 0.2:
        f["numx"] = rng.randrange(7)
    if len(d["secs"]) == 2 and rng.random() < 0.3:
        f["marker"] = rng.choice(["----", "-----", "------------------------------"])
    if rng.random() < 0.5:
        f["seal_first"] = True
    if rng.random() < 0.5:
        f["union_first"] = True
    if rich:
        blanks, orphans = {}, {}
        for si, s in enumerate(d["secs"]):
            for idx in range(-1, len(s["items"])):
                if idx == -1 and s.get("hdr") is None and si == 0:
                    continue  # an orphan right at the top would be the header comment
                if rng.random() < 0.15:
                    blanks["%d:%d" % (si, idx)] = rng.randint(1, 3)
                if rng.random() < 0.12 and not (idx == -1):
                    orphans["%d:%d" % (si, idx)] = gen_doc(rng)
        if blanks:
            f["blanks"] = blanks
        if orphans:
            f["orphans"] = orphans
        r = rng.random()
        if r < 0.15:
            f["tail"] = [""] * rng.randint(1, 2)
        elif r < 0.3:
            f["tail"] = ["", "# " + gen_doc(rng).split("\n")[0]]
    return f
