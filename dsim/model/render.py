"""Abstract definition + formatting vector -> DSDL text and a line map. No pydsdl import.

fmt keys (all optional; absent = canonical):
  crlf: bool            line ending \r\n instead of \n
  cr: bool              line ending \r (classic Mac) instead of \n
  final_nl: bool        text ends with a line ending (default True)
  gap: str              blanks between tokens (default " ")
  trail: str            blanks appended to statement lines that carry no comment
  doc_same: bool        first doc line on the statement's own line (default True)
  seal_first: bool      place @sealed before the attributes (default False: after them)
  union_first: bool     @union before @deprecated (default False)
  blanks: {"s:i": n}    n extra empty lines after item i of section s ("s:-1" = before the first item)
  orphans: {"s:i": txt} an orphan comment block, fenced by empty lines, after item i of section s
  tail: list[str]       raw lines appended after the last statement (e.g. ["# x"], [""], ["  "])
  lead: list[str]       raw lines before everything (only sensible when there is no header comment)
  marker: str           the service response marker (default "---")
  blank: str            content of the "empty" lines emitted for blanks / orphan fences (default "": truly empty)
  tight_hash: bool      comments written "#text" instead of "# text"
  sat_x: bool           the default cast mode spelled out ("saturated uint8")
  cgap: str             blanks / tabs between a cast mode keyword and the type name (default " ")
  numx: int             array capacities and extents spelled as equivalent literals / constant expressions (0x.., n-1 + 1, 2 ** k, 8 * m)
"""
from __future__ import annotations


def spell_number(n: int, numx: int | None) -> str:
    """An integer as the decimal literal (numx None) or as one of several equivalent constant expressions / literal forms."""
    if numx is None or not isinstance(n, int) or n < 0:
        return "%d" % n
    sel = (numx + n) % 7
    if sel == 0:
        return hex(n)
    if sel == 1 and n >= 1:
        return "%d + 1" % (n - 1)
    if sel == 2 and n > 0 and n & (n - 1) == 0 and n > 1:
        return "2 ** %d" % (n.bit_length() - 1)
    if sel == 3:
        return "(%d)" % n
    if sel == 4 and n >= 1000:
        s0 = "%d" % n
        return s0[:-3] + "_" + s0[-3:]
    if sel == 5:
        return "%d * 1" % n
    if sel == 6 and n % 8 == 0 and n > 0:
        return "8 * %d" % (n // 8)
    return "%d" % n


def _cgap(tt: str, fmt: dict) -> str:
    """The blanks / tabs between a cast mode keyword and the type name (fmt key cgap; default one blank)."""
    cg = fmt.get("cgap")
    if not cg:
        return tt
    import re
    return re.sub(r"\b(truncated|saturated) ", lambda m: m.group(1) + cg, tt)


def type_text(t: list, d: dict, gap: str = "", sat: bool = False, numx: int | None = None) -> str:
    k = t[0]
    if k == "bool":
        return "bool"
    if k == "u":
        return ("truncated uint%d" if t[2] == "t" else ("saturated uint%d" if (sat or (len(t) > 3 and t[3] == "x")) else "uint%d")) % t[1]
    if k == "i":
        if len(t) > 2 and t[2] == "t":
            return "truncated int%d" % t[1]
        return ("saturated int%d" if (sat or (len(t) > 2 and t[2] == "x")) else "int%d") % t[1]
    if k == "f":
        return ("truncated float%d" if t[2] == "t" else ("saturated float%d" if (sat or (len(t) > 3 and t[3] == "x")) else "float%d")) % t[1]
    if k in ("byte", "utf8"):
        return k
    if k == "void":
        return "void%d" % t[1]
    if k == "arr":
        return "%s%s[%s%s%s]" % (type_text(t[1], d, "", sat, numx), gap, gap, spell_number(t[2], numx), gap)
    if k == "var":
        if len(t) > 3 and t[3] == "lt":
            return "%s%s[%s<%s%s%s]" % (type_text(t[1], d, "", sat, numx), gap, gap, gap, spell_number(t[2] + 1, numx), gap)
        return "%s%s[%s<=%s%s%s]" % (type_text(t[1], d, "", sat, numx), gap, gap, gap, spell_number(t[2], numx), gap)
    if k == "ref":
        ns = d["name"].rsplit(".", 1)[0]
        tns, short = t[1].rsplit(".", 1)
        name = short if (len(t) > 4 and t[4] == "rel" and tns == ns) else t[1]
        return "%s.%d.%d" % (name, t[2], t[3])
    raise ValueError(t)


def _doc_lines(doc: str, tight: bool = False) -> list[str]:
    # "#text" and "# text" are the same comment (one blank after the hash is not part of the text)
    return [("#" if tight and ln and not ln.startswith(" ") else "# ") + ln for ln in doc.split("\n")]


def render(d: dict, fmt: dict | None = None) -> tuple[str, dict[str, int]]:
    """Returns (text, line map). Line map keys: "s:i" for items, "s:union", "s:seal", "dep", "marker"."""
    fmt = fmt or {}
    gap = fmt.get("gap", " ")
    trail = fmt.get("trail", "")
    doc_same = fmt.get("doc_same", True)
    blanks = fmt.get("blanks", {})
    orphans = fmt.get("orphans", {})
    lines: list[str] = list(fmt.get("lead", []))
    lmap: dict[str, int] = {}

    def emit(text: str, tag: str | None = None, comment: bool = False) -> None:
        if not comment and text and "#" not in text:
            text = text + trail
        lines.append(text)
        if tag is not None:
            lmap[tag] = len(lines)

    blank = fmt.get("blank", "")  # what an "empty" line consists of ("" or blanks only)
    tight = bool(fmt.get("tight_hash"))
    sat = bool(fmt.get("sat_x"))
    numx = fmt.get("numx")

    def after(si: int, idx: int) -> None:
        k = "%d:%d" % (si, idx)
        if k in orphans:
            lines.append(blank)
            for ln in _doc_lines(orphans[k], tight):
                emit(ln, comment=True)
            lines.append(blank)
        for _ in range(int(blanks.get(k, 0))):
            lines.append(blank)

    for si, s in enumerate(d["secs"]):
        if si == 1:
            emit(fmt.get("marker", "---"), "marker")
        if s.get("hdr") is not None:
            for ln in _doc_lines(s["hdr"], tight):
                emit(ln, comment=True)
        dirs = []
        if si == 0 and d.get("dep"):
            dirs.append(("@deprecated", "dep"))
        if s.get("union"):
            dirs.append(("@union", "%d:union" % si))
        if fmt.get("union_first"):
            dirs.reverse()
        for text, tag in dirs:
            emit(text, tag)
        seal = s.get("seal")
        if seal == "sealed" and fmt.get("seal_first"):
            emit("@sealed", "%d:seal" % si)
        after(si, -1)
        for idx, it in enumerate(s["items"]):
            k = it[0]
            doc = None
            if k == "f":
                text = "%s%s%s" % (_cgap(type_text(it[1], d, fmt.get("agap", ""), sat, numx), fmt), gap, it[2])
                doc = it[3] if len(it) > 3 else None
            elif k == "p":
                text = "void%d" % it[1]
                doc = it[2] if len(it) > 2 else None
            elif k == "c":
                text = "%s%s%s%s=%s%s" % (_cgap(type_text(it[1], d, "", sat, None), fmt), gap, it[2], gap, gap, it[3])
                doc = it[5] if len(it) > 5 else None
            elif k == "raw":
                text = it[1]
            else:
                raise ValueError(it)
            tag = "%d:%d" % (si, idx)
            if doc:
                dl = _doc_lines(doc, tight)
                if doc_same:
                    emit(text + gap + dl[0], tag, comment=True)
                    dl = dl[1:]
                else:
                    emit(text, tag)
                for ln in dl:
                    emit(ln, comment=True)
                # a documented attribute's comment is terminated by the next statement or an empty line;
                # nothing to add here: the next thing emitted is one of those (or the end of the text).
            else:
                emit(text, tag)
            after(si, idx)
        if seal == "sealed" and not fmt.get("seal_first"):
            emit("@sealed", "%d:seal" % si)
        elif isinstance(seal, int) and not isinstance(seal, bool):
            emit("@extent%s%s" % (gap, spell_number(seal, numx)), "%d:seal" % si)
        elif isinstance(seal, str) and seal != "sealed":
            emit(seal, "%d:seal" % si)  # raw override (fault injection)
    for ln in fmt.get("tail", []):
        lines.append(ln)
    eol = "\r\n" if fmt.get("crlf") else "\r" if fmt.get("cr") else "\n"
    text = eol.join(lines)
    if fmt.get("final_nl", True):
        text += eol
    return text, lmap
