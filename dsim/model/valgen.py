"""Seeded value generator for the wire world. No pydsdl import. Values are in the input form pydsdl.serialize accepts."""
from __future__ import annotations
import math
import random
from . import types as T
from .refcodec import FMAX

CHARS = ["a", "Z", "0", " ", "é", "ß", "中", "☃", "😀", "\x00", "\x7f", "\n", "\ufeff", "\ufeff", "\u2028", "\ufffd", "\x85", "e\u0301"]
TINY = {16: 6e-8, 32: 1e-45, 64: 5e-324}


def gen_scalar(rng: random.Random, t: list, in_range: bool = False):
    k = t[0]
    if k == "bool":
        return rng.choice([True, False, True, False, 0, 1])
    if k in ("u", "byte", "utf8"):
        n = T.bits_of(t)
        hi = (1 << n) - 1
        c = [0, 1 if hi >= 1 else 0, hi, hi // 2, rng.randint(0, hi)]
        if not in_range and k == "u":
            c += [hi + 1, -1, 2 * hi + 5, -hi - 3, (1 << 70) + 3]
            if k == "u":
                # numbers given as Python floats with integral values (the float is the number it is)
                c += [float(hi + 1), 2.0 * float(hi + 1), 1e19, 2e19, -1.0, -1e19, 1.5e18, 3.0, 0.0]
        return rng.choice(c)
    if k == "i":
        n = t[1]
        lo, hi = -(1 << (n - 1)), (1 << (n - 1)) - 1
        c = [0, -1, lo, hi, lo + 1, hi - 1 if hi > 0 else 0, rng.randint(lo, hi)]
        if not in_range:
            c += [lo - 1, hi + 1, 3 * hi + 7, 3 * lo - 7, -(1 << 70)]
            c += [float(hi + 1), float(lo), 2.0 * float(lo), 1e19, -1e19, 1.5e18, -2.0, 0.0, float(1 << 63)]
        return rng.choice(c)
    if k == "f":
        w = t[1]
        mx = FMAX[w]
        c = [0.0, -0.0, 1.0, -1.5, 0.1, 1 / 3, mx, -mx, TINY[w], -TINY[w], float("nan"), rng.uniform(-1000, 1000), 2.0 ** rng.randint(-10, 10), 3, -7]
        if not in_range:
            c += [mx * 1.5 if w < 64 else mx, -mx * 2 if w < 64 else -mx, 65520.0, 3.5e38, 1e300]
            if t[2] == "t":
                c += [float("inf"), float("-inf")]
        return rng.choice(c)
    raise ValueError(t)


def gen_string(rng: random.Random, cap: int) -> str:
    n = rng.choice([0, 1, cap, rng.randint(0, cap)])
    out = ""
    used = 0
    for _ in range(40):
        ch = rng.choice(CHARS)
        b = len(ch.encode("utf-8"))
        if used + b > n:
            if rng.random() < 0.5:
                break
            continue
        out += ch
        used += b
    return out


def gen_value(rng: random.Random, res: T.Resolver, t: list, in_range: bool = False, p_omit: float = 0.15, depth: int = 0):
    k = t[0]
    if k in ("arr", "var"):
        el = t[1]
        cap = t[2]
        n = cap if k == "arr" else rng.choice([0, 1 if cap >= 1 else 0, cap, rng.randint(0, cap)])
        if el[0] == "utf8":
            return gen_string(rng, cap)
        if el[0] == "byte":
            if k == "var" and rng.random() < 0.12:
                return gen_string(rng, cap)  # serialize() accepts a str for a byte array: its UTF-8 octets
            b = bytes(rng.randrange(256) for _ in range(n))
            return b if rng.random() < 0.7 else list(b)
        return [gen_value(rng, res, el, in_range, p_omit, depth + 1) for _ in range(n)]
    if k == "ref":
        return gen_composite(rng, res.ref_sec(t), in_range, p_omit, depth + 1)
    return gen_scalar(rng, t, in_range)


def gen_composite(rng: random.Random, sec: T.Sec, in_range: bool = False, p_omit: float = 0.15, depth: int = 0) -> dict:
    named = [(n, t) for n, t in sec.fields if n is not None]
    if sec.union:
        n, t = rng.choice(named)
        return {n: gen_value(rng, sec.res, t, in_range, p_omit, depth)}
    out = {}
    for n, t in named:
        if rng.random() < p_omit:
            continue
        out[n] = gen_value(rng, sec.res, t, in_range, p_omit, depth)
    return out


def relax(rng: random.Random, sec: T.Sec, v: dict):
    """A relaxed spelling of the explicit value v (positional structures, bare single-field structures), or None."""
    named = [(n, t) for n, t in sec.fields if n is not None]
    if sec.union:
        (n, val), = v.items()
        t = dict(named)[n]
        return {n: relax_value(rng, sec.res, t, val)}
    if len(named) == 1:
        n, t = named[0]
        if n not in v:
            return None
        inner = relax_value(rng, sec.res, t, v[n])
        if isinstance(inner, dict):
            return {n: inner}
        return inner if rng.random() < 0.7 else {n: inner}
    # positional prefix: only if the given fields form a prefix of the field list
    given = [n for n, _ in named if n in v]
    if given == [n for n, _ in named][: len(given)] and rng.random() < 0.7:
        out = [relax_value(rng, sec.res, t, v[n]) for n, t in named[: len(given)]]
        return out if rng.random() < 0.5 else tuple(out)
    return {n: relax_value(rng, sec.res, dict(named)[n], x) for n, x in v.items()}


def relax_value(rng: random.Random, res: T.Resolver, t: list, v):
    if t[0] == "ref":
        r = relax(rng, res.ref_sec(t), v)
        return v if r is None else r
    if t[0] in ("arr", "var") and isinstance(v, list):
        return [relax_value(rng, res, t[1], x) for x in v]
    return v


def alt_containers(rng: random.Random, res: T.Resolver, t: list, v):
    """The same value carried by other container types that serialize() documents as accepted: tuple for list, bytearray /
    list / tuple of integers for bytes, bytes / bytearray for str (UTF-8 strings)."""
    k = t[0]
    if k in ("arr", "var"):
        el = t[1]
        if el[0] == "utf8" and isinstance(v, str):
            b = v.encode("utf-8")
            return rng.choice([b, bytearray(b), v])
        if el[0] == "byte":
            if isinstance(v, str):
                return rng.choice([v, v.encode("utf-8"), list(v.encode("utf-8"))])
            b = bytes(v)
            return rng.choice([b, bytearray(b), list(b), tuple(b)])
        if isinstance(v, (list, tuple)):
            items = [alt_containers(rng, res, el, x) for x in v]
            return tuple(items) if rng.random() < 0.5 else items
        return v
    if k == "ref" and isinstance(v, dict):
        return alt_composite(rng, res.ref_sec(t), v)
    return v


def alt_composite(rng: random.Random, sec: T.Sec, v: dict) -> dict:
    types = {n: t for n, t in sec.fields if n is not None}
    return {n: (alt_containers(rng, sec.res, types[n], x) if n in types else x) for n, x in v.items()}


# ---- exhaustive shape enumeration (every combination of array lengths and union variants; contents are defaults) -----
def count_shapes(res: T.Resolver, t: list, cap: int = 100000) -> int:
    k = t[0]
    if k == "arr":
        c = count_shapes(res, t[1], cap)
        return min(cap, c ** t[2]) if c > 1 else 1
    if k == "var":
        c = count_shapes(res, t[1], cap)
        if c == 1:
            return t[2] + 1
        total = 0
        for n in range(t[2] + 1):
            total += c ** n
            if total > cap:
                return cap
        return total
    if k == "ref":
        return count_sec_shapes(res.ref_sec(t), cap)
    return 1


def count_sec_shapes(sec: T.Sec, cap: int = 100000) -> int:
    named = [(n, t) for n, t in sec.fields if n is not None]
    if sec.union:
        return min(cap, sum(count_shapes(sec.res, t, cap) for _n, t in named))
    total = 1
    for _n, t in named:
        total *= count_shapes(sec.res, t, cap)
        if total > cap:
            return cap
    return total


def all_shapes(res: T.Resolver, t: list):
    import itertools
    k = t[0]
    if k == "arr":
        if t[1][0] == "byte":
            yield bytes(t[2])
            return
        for combo in itertools.product(*[list(all_shapes(res, t[1])) for _ in range(t[2])]):
            yield list(combo)
    elif k == "var":
        if t[1][0] == "utf8":
            for n in range(t[2] + 1):
                yield "a" * n
            return
        if t[1][0] == "byte":
            for n in range(t[2] + 1):
                yield bytes(n)
            return
        el = list(all_shapes(res, t[1]))
        for n in range(t[2] + 1):
            for combo in itertools.product(*[el for _ in range(n)]):
                yield list(combo)
    elif k == "ref":
        yield from all_sec_shapes(res.ref_sec(t))
    else:
        yield False if k == "bool" else (0.0 if k == "f" else 0)


def all_sec_shapes(sec: T.Sec):
    import itertools
    named = [(n, t) for n, t in sec.fields if n is not None]
    if sec.union:
        for n, t in named:
            for v in all_shapes(sec.res, t):
                yield {n: v}
        return
    lists = [list(all_shapes(sec.res, t)) for _n, t in named]
    for combo in itertools.product(*lists):
        yield {n: v for (n, _t), v in zip(named, combo)}
