"""Rule-violation injectors and their valid boundary neighbours (C05 / C12 / C17 / C19 fault library). No pydsdl import.

Abstract mutators change the abstract workspace; the verdict is *computed* by model/rules.py afterwards (so a mutator
that happens to leave the workspace valid is a boundary neighbour that must be accepted). Raw injectors insert a DSDL
line that the abstract language cannot express; their verdict comes from the calibrated table RAW below.
"""
from __future__ import annotations
import copy
import random
from . import types as T

BAD_NAMES = ["_a_", "uint8", "Uint8", "TRUE", "int", "float", "void", "q1_1", "uq8_8", "com1", "COM9", "lpt0", "self", "Optional",
             "nul", "bool", "Struct", "Aux", "Con", "type", "Enum", "prn", "super", "Const", "truncated", "Saturated", "float32",
             "void3", "template", "And", "or", "NOT", "auto", "aligned", "false",
             # characters outside [A-Za-z0-9_] (non-ASCII letters and digits are "word" characters for Unicode-aware regexes)
             "Caf\u00e9", "Gr\u00f6\u00dfe", "Level\u0663", "donn\u00e9es", "\u0421yr", "na\u00efve", "x\u00b2", "a b", "a.b"[:1] + "\u00b7b"]
NEAR_NAMES = ["a_", "_a", "A1", "floatx", "voidx", "com10", "null", "saturatedx", "uint", "int_", "q1", "lpt", "selfie", "types",
              "constant", "boolean", "u8", "_", "x_y"]
# NB: "uint" and "_" : "uint" matches u?int\d*$ -> reserved. Keep the lists honest: the verdict is computed, not assumed.


def _iter_items(ws: dict):
    for ri, r in enumerate(ws["roots"]):
        for di, d in enumerate(r["defs"]):
            for si, s in enumerate(d["secs"]):
                for ii, it in enumerate(s["items"]):
                    yield ri, di, si, ii, d, s, it


def _types_in(t: list):
    yield t
    if t[0] in ("arr", "var"):
        yield from _types_in(t[1])


def rename_refs(ws: dict, old: str, new: str) -> None:
    def fix(t):
        if t[0] in ("arr", "var"):
            fix(t[1])
        elif t[0] == "ref" and t[1] == old:
            t[1] = new
    for *_x, it in _iter_items(ws):
        if it[0] in ("f", "c"):
            fix(it[1])


def rename_prefix(ws: dict, old_prefix: str, new_prefix: str) -> None:
    """Rename a namespace (all definitions under it and all references to them)."""
    names = []
    for r in ws["roots"]:
        for d in r["defs"]:
            if d["name"] == old_prefix or d["name"].startswith(old_prefix + "."):
                names.append(d["name"])
    for r in ws["roots"]:
        for d in r["defs"]:
            if d["name"] in names:
                newn = new_prefix + d["name"][len(old_prefix):]
                rename_refs(ws, d["name"], newn)
                d["name"] = newn


# ---- abstract mutators: (rng, ws) -> label | None (mutate in place) -------------------------------------------------
def m_width(rng, ws):
    cands = [(it, t) for *_x, it in _iter_items(ws) if it[0] in ("f", "c") for t in _types_in(it[1]) if t[0] in ("u", "i", "f")]
    if not cands:
        return None
    it, t = rng.choice(cands)
    t[1] = rng.choice({"u": [0, 1, 64, 65, 100], "i": [1, 2, 64, 65], "f": [8, 16, 17, 32, 64, 128]}[t[0]])
    if it[0] == "c":
        it[3], it[4] = ("false", False) if t[0] == "bool" else ("0", [0, 1])
    return "width:%s%d" % (t[0], t[1])


def m_pad_width(rng, ws):
    cands = [it for *_x, it in _iter_items(ws) if it[0] == "p"]
    if not cands:
        return None
    it = rng.choice(cands)
    it[1] = rng.choice([0, 1, 64, 65])
    return "width:void%d" % it[1]


def m_cast(rng, ws):
    cands = [t for *_x, it in _iter_items(ws) if it[0] in ("f",) for t in _types_in(it[1]) if t[0] == "i"]
    if not cands:
        return None
    t = rng.choice(cands)
    if len(t) > 2:
        t[2] = "t"
    else:
        t.append("t")
    return "cast:truncated-int"


def m_capacity(rng, ws):
    cands = [t for *_x, it in _iter_items(ws) if it[0] == "f" for t in _types_in(it[1]) if t[0] in ("arr", "var")]
    if not cands:
        return None
    t = rng.choice(cands)
    t[2] = rng.choice([0, 0, 1, 2])
    if t[0] == "var" and rng.random() < 0.5 and len(t) == 3:
        t.append("lt")
    return "capacity:%d" % t[2]


def m_attr_name(rng, ws):
    cands = [(s, it) for _ri, _di, _si, _ii, _d, s, it in _iter_items(ws) if it[0] in ("f", "c")]
    if not cands:
        return None
    s, it = rng.choice(cands)
    new = rng.choice(BAD_NAMES + NEAR_NAMES)
    if any(x[0] in ("f", "c") and x is not it and x[2].lower() == new.lower() for x in s["items"]):
        return None
    it[2] = new
    return "attr-name:" + new


def m_type_name(rng, ws):
    defs = [d for r in ws["roots"] for d in r["defs"]]
    d = rng.choice(defs)
    comps = d["name"].split(".")
    new = rng.choice(BAD_NAMES + NEAR_NAMES + ["a-b", "1a"])
    if new[0].isdigit() or "-" in new:
        pass
    newname = ".".join(comps[:-1] + [new])
    if any(x["name"].lower() == newname.lower() for x in defs if x is not d):
        return None
    # every version of the name is renamed (a family shares its name)
    for x in defs:
        if x["name"] == d["name"] and x is not d:
            x["name"] = newname
    rename_refs(ws, d["name"], newname)
    d["name"] = newname
    return "type-name:" + new


def m_ns_name(rng, ws):
    defs = [d for r in ws["roots"] for d in r["defs"] if len(d["name"].split(".")) > 2]
    if not defs:
        return None
    d = rng.choice(defs)
    comps = d["name"].split(".")
    idx = rng.randrange(1, len(comps) - 1)
    new = rng.choice(BAD_NAMES + NEAR_NAMES + ["a-b"])
    old_prefix = ".".join(comps[: idx + 1])
    new_prefix = ".".join(comps[:idx] + [new])
    alln = [x["name"].lower() for r in ws["roots"] for x in r["defs"]]
    if any(n == new_prefix.lower() or n.startswith(new_prefix.lower() + ".") for n in alln):
        return None
    rename_prefix(ws, old_prefix, new_prefix)
    return "ns-name:" + new


def m_root_name(rng, ws):
    r = rng.choice(ws["roots"])
    new = rng.choice(BAD_NAMES + NEAR_NAMES)
    if any(x["name"].lower() == new.lower() for x in ws["roots"]):
        return None
    old = r["name"]
    for x in ws["roots"]:
        if x["name"] == old:
            x["name"] = new
            x["dir"] = x["dir"].rsplit("/", 1)[0] + "/" + new
    rename_prefix(ws, old, new)
    return "root-name:" + new


def m_dup_attr(rng, ws):
    cands = [s for r in ws["roots"] for d in r["defs"] for s in d["secs"] if sum(1 for it in s["items"] if it[0] in ("f", "c")) >= 2]
    if not cands:
        return None
    s = rng.choice(cands)
    named = [it for it in s["items"] if it[0] in ("f", "c")]
    a, b = rng.sample(named, 2)
    b[2] = a[2]
    return "dup-attr"


def m_same_name_req_rsp(rng, ws):
    cands = [d for r in ws["roots"] for d in r["defs"] if len(d["secs"]) == 2]
    if not cands:
        return None
    d = rng.choice(cands)
    a = [it for it in d["secs"][0]["items"] if it[0] in ("f", "c")]
    b = [it for it in d["secs"][1]["items"] if it[0] in ("f", "c")]
    if not a or not b:
        return None
    x, y = rng.choice(a), rng.choice(b)
    if any(it is not y and it[0] in ("f", "c") and it[2].lower() == x[2].lower() for it in d["secs"][1]["items"]):
        return None
    y[2] = x[2]
    return "same-name-req-rsp"


def m_union_arity(rng, ws):
    cands = [s for r in ws["roots"] for d in r["defs"] for s in d["secs"] if s.get("union")]
    if not cands:
        return None
    s = rng.choice(cands)
    keep = rng.choice([0, 1, 2])
    out = []
    n = 0
    for it in s["items"]:
        if it[0] == "f":
            if n < keep:
                out.append(it)
            n += 1
        else:
            out.append(it)
    s["items"] = out
    if isinstance(s.get("seal"), int):
        pass
    return "union-arity:%d" % min(keep, n)


def m_make_union(rng, ws):
    cands = [s for r in ws["roots"] for d in r["defs"] for s in d["secs"] if not s.get("union")]
    if not cands:
        return None
    s = rng.choice(cands)
    s["union"] = True
    return "make-union"


def m_union_pad(rng, ws):
    cands = [s for r in ws["roots"] for d in r["defs"] for s in d["secs"] if s.get("union")]
    if not cands:
        return None
    s = rng.choice(cands)
    s["items"].insert(rng.randint(0, len(s["items"])), ["p", 8])
    return "union-pad"


def m_placement(rng, ws):
    secs = [(d, s) for r in ws["roots"] for d in r["defs"] for s in d["secs"]]
    d, s = rng.choice(secs)
    kind = rng.choice(["named-void", "void-array", "void-const", "bare-utf8", "utf8-fixed", "utf8-const", "bare-byte", "byte-const",
                       "utf8-var", "byte-arr", "byte-var", "bool-const-array"])
    t = {"named-void": ["void", 8], "void-array": ["arr", ["void", 8], 2], "void-const": ["void", 8], "bare-utf8": ["utf8"],
         "utf8-fixed": ["arr", ["utf8"], 4], "utf8-const": ["utf8"], "bare-byte": ["byte"], "byte-const": ["byte"],
         "utf8-var": ["var", ["utf8"], 5], "byte-arr": ["arr", ["byte"], 3], "byte-var": ["var", ["byte"], 3],
         "bool-const-array": ["arr", ["bool"], 2]}[kind]
    name = "plc_x"
    if kind.endswith("const") or kind == "bool-const-array":
        s["items"].append(["c", t, name, "0", [0, 1]])
    else:
        s["items"].append(["f", t, name])
    if isinstance(s.get("seal"), int):
        s["seal"] += 8 * 64
    return "placement:" + kind


def m_deprecate(rng, ws):
    """Make a referenced definition deprecated (the referrers become invalid unless deprecated themselves)."""
    defs = {T.def_key(d): d for r in ws["roots"] for d in r["defs"]}
    refd = sorted({k for d in defs.values() for k in T.def_refs(d) if k in defs})
    if not refd:
        return None
    k = rng.choice(refd)
    defs[k]["dep"] = True
    if rng.random() < 0.4:
        # valid neighbour: deprecate everything that (transitively) uses it as well
        changed = True
        while changed:
            changed = False
            for d in defs.values():
                if not d.get("dep") and any(defs[x].get("dep") for x in T.def_refs(d) if x in defs):
                    d["dep"] = True
                    changed = True
        return "deprecate-all-users"
    return "deprecate-referenced"


def m_seal(rng, ws):
    secs = [(d, si, s) for r in ws["roots"] for d in r["defs"] for si, s in enumerate(d["secs"])]
    d, si, s = rng.choice(secs)
    kind = rng.choice(["none", "extent-exact", "extent-minus8", "extent-plus4", "extent-plus1", "extent-0", "sealed", "extent-frac", "extent-frac"])
    if kind == "none":
        s["seal"] = None
    elif kind == "sealed":
        s["seal"] = "sealed"
    else:
        try:
            res = T.Resolver({T.def_key(x): x for r in ws["roots"] for x in r["defs"]})
            inner = T.Sec(res, d, si).inner_extent
        except Exception:
            return None
        if kind == "extent-frac":
            # a non-integer extent whose integer part would be a valid extent (byte multiple, large enough): rejected, not truncated
            e0 = inner + 8 * rng.choice([0, 1, 4])
            s["seal"] = rng.choice(["@extent %d.5" % e0, "@extent %d / 2" % (2 * e0 + 1), "@extent %d + 1 / 3" % e0, "@extent %d.125" % e0, "@extent (%d * 3 + 1) / 3" % e0])
            return "seal:" + kind
        s["seal"] = {"extent-exact": inner, "extent-minus8": inner - 8, "extent-plus4": inner + 4, "extent-plus1": inner + 1, "extent-0": 0}[kind]
        if s["seal"] < 0:
            return None
    return "seal:" + kind


def m_version(rng, ws):
    defs = [d for r in ws["roots"] for d in r["defs"]]
    d = rng.choice(defs)
    new = rng.choice([[0, 0], [256, 0], [0, 256], [0, 1], [255, 255], [1, 0], [300, 300]])
    if any(x["name"] == d["name"] and x["ver"] == new for x in defs):
        return None
    old = list(d["ver"])
    for *_x, it in _iter_items(ws):
        if it[0] in ("f", "c"):
            for t in _types_in(it[1]):
                if t[0] == "ref" and t[1] == d["name"] and [t[2], t[3]] == old:
                    t[2], t[3] = new
    d["ver"] = new
    return "version:%d.%d" % tuple(new)


def m_port(rng, ws):
    defs = [d for r in ws["roots"] for d in r["defs"]]
    d = rng.choice(defs)
    if any(x["name"] == d["name"] and x is not d for x in defs):
        return None
    svc = len(d["secs"]) == 2
    cands = [0, 255, 256, 383, 384, 511, 512, 600, -1, -300, -511, 1024, 2**16] if svc else [0, 6143, 6144, 7167, 7168, 8191, 8192, 9000, -1, -5, -6144, -8191, -8192, 2**16, 2**32 + 1]
    p = rng.choice(cands)
    if any(x.get("port") == p and (len(x["secs"]) == 2) == svc for x in defs):
        return None
    d["port"] = p
    return "port:%s%d" % ("s" if svc else "m", p)


ABSTRACT = [m_width, m_pad_width, m_cast, m_capacity, m_attr_name, m_type_name, m_ns_name, m_root_name, m_dup_attr,
            m_same_name_req_rsp, m_union_arity, m_make_union, m_union_pad, m_placement, m_deprecate, m_seal, m_version, m_port]

# ---- raw injectors -------------------------------------------------------------------------------------------------------
# name: (line text, position: "first" | "last" | "any" | "after-attr" | "response-first", verdict: "reject" | "accept", located)
RAW = {
    "union-after-attr": ("@union", "after-attr", "reject", True),
    "union-expr": ("@union 1", "first", "reject", True),
    "deprecated-after-attr": ("@deprecated", "after-attr", "reject", True),
    "deprecated-expr": ("@deprecated true", "first", "reject", True),
    "deprecated-in-response": ("@deprecated", "response-first", "reject", True),
    "sealed-expr": ("@sealed 1", "any", "reject", True),
    "second-sealed": ("@sealed", "any", "reject", False),
    "second-extent": ("@extent 8 * 1024", "last", "reject", False),
    "unknown-directive": ("@frobnicate", "any", "reject", True),
    "unknown-directive-expr": ("@frobnicate 1 + 1", "any", "reject", True),
    "assert-noexpr": ("@assert", "any", "reject", True),
    "assert-nonbool": ("@assert 1 + 1", "any", "reject", True),
    "assert-false": ("@assert 1 == 2", "any", "reject", True),
    "assert-true": ("@assert 2 * 2 == 4", "any", "accept", True),
    "print-noexpr": ("@print", "any", "accept", True),
    "print-expr": ("@print {1, 2, 3}", "any", "accept", True),
    "extent-noexpr": ("@extent", "last", "reject", True),
    "extent-string": ("@extent 'a'", "last", "reject", True),
    "third-marker": ("---", "response-last", "reject", True),
    "syntax": ("uint8 = = 1", "any", "reject", True),
    "syntax2": ("uint8[ x", "any", "reject", True),
    # characters that look like blanks but are not DSDL white space: a page break on a line of its own, a pasted no-break space
    "formfeed-line": ("\x0c", "any", "reject", True),
    "vtab-line": ("\x0b", "any", "reject", True),
    "nbsp-line": ("\u00a0", "any", "reject", True),
    "stmt-formfeed": ("uint8 q_ff\x0c", "any", "reject", True),
    "stmt-nbsp": ("uint8 q_nb\u00a0", "any", "reject", True),
    "undefined-ident": ("@assert NOPE_X == 1", "any", "reject", True),
    "undefined-type": ("zz.nope.Type.1.0 q_undefined", "any", "reject", True),
    "div-zero": ("@assert 1 / 0 == 1", "any", "reject", True),
    "bad-width-raw": ("uint65 q_w", "any", "reject", True),
    "bad-cap-raw": ("uint8[0] q_c", "any", "reject", True),
    "cast-raw": ("truncated int8 q_t", "any", "reject", True),
    "frac-cap": ("uint8[3/2] q_f", "any", "reject", True),
    "bool-cap": ("uint8[true] q_b", "any", "reject", True),
    "set-cap": ("uint8[{1}] q_s", "any", "reject", True),
    # @extent must come after the last attribute: a field, padding or constant after it is rejected (at either of the two lines)
    "const-after-extent": ("uint8 LATE_K = 1", "after-extent", "reject", False),
    "field-after-extent": ("uint8 late_f", "after-extent", "reject", False),
    "pad-after-extent": ("void8", "after-extent", "reject", False),
    "bool-const-after-extent": ("bool LATE_B = true", "after-extent", "reject", False),
    # @deprecated belongs before the first attribute of the definition; never in the response - also when the request is empty
    "deprecated-in-response-of-empty-request": ("@deprecated", "response-first-empty-request", "reject", True),
}
LAZY = {  # rejected, located at the statement, but committed lazily by the builder
    "lazy-bad-name": "uint8 _bad_",
    "lazy-reserved-name": "uint8 float",
    "lazy-named-void": "void8 nv_x",
    "lazy-const-range": "uint8 Q_BIG = 300",
    "lazy-const-kind": "bool Q_KIND = 1",
    "lazy-const-frac": "int8 Q_FRAC = 1 / 2",
    "lazy-const-str": "uint16 Q_STR = 'a'",
}
FINAL = {  # rejected when the schema is finalised: no single offending statement (path only)
    "final-bare-utf8": "utf8 q_u",
    "final-bare-byte": "byte q_y",
    "final-dup": None,  # duplicate of an existing attribute name (built at injection time)
}


def inject_raw(rng: random.Random, d: dict, name: str) -> tuple[int, int] | None:
    """Insert the raw line into definition d (in place). Returns (section, item index) or None if not applicable."""
    table = dict(RAW)
    if name in RAW:
        text, pos = RAW[name][0], RAW[name][1]
    elif name in LAZY:
        text, pos = LAZY[name], "any"
    elif name in FINAL:
        text, pos = FINAL[name], "any"
    else:
        raise KeyError(name)
    nsec = len(d["secs"])
    if pos in ("response-first", "response-last", "response-first-empty-request"):
        if nsec != 2:
            return None
        si = 1
        if pos == "response-first-empty-request":
            d["secs"][0]["items"] = [it for it in d["secs"][0]["items"] if it[0] == "raw"]
            if isinstance(d["secs"][0].get("seal"), int):
                d["secs"][0]["seal"] = "sealed"
    else:
        si = rng.randrange(nsec)
    s = d["secs"][si]
    items = s["items"]
    if name == "final-dup":
        named = [it for it in items if it[0] in ("f", "c")]
        if not named:
            return None
        text = "uint8 " + rng.choice(named)[2]
    if s.get("union") and (text.startswith("void") or name in ("lazy-named-void",)):
        return None
    if pos == "after-extent":
        if s.get("union") and text.startswith("void"):
            return None
        # the section becomes delimited with a roomy extent; the attribute line is emitted where the renderer would put the
        # sealing directive, i.e. right after the (raw) @extent line
        items.append(["raw", "@extent 8 * 100000", []])
        s["seal"] = text
        return si, len(items) - 1
    if pos == "first":
        idx = 0
    elif pos in ("last", "response-last"):
        idx = len(items)
    elif pos in ("response-first", "response-first-empty-request"):
        idx = 0
    elif pos == "after-attr":
        attrs = [i for i, it in enumerate(items) if it[0] in ("f", "c", "p")]
        if not attrs:
            return None
        idx = rng.choice(attrs) + 1
    else:
        idx = rng.randint(0, len(items))
    if isinstance(s.get("seal"), int) and not isinstance(s.get("seal"), bool):
        # an attribute line after @extent is a different error: keep raw attribute lines before it (they are: the
        # renderer emits @extent after all items). Give the extent room so that only the injected fault matters.
        s["seal"] = s["seal"] + 8 * 128
    items.insert(idx, ["raw", text, []])
    return si, idx
