"""Fault catalogue (see DESIGN.md Appendix A). No pydsdl import.

TEXT_FAULTS: whole-file replacement texts for definitions that nothing may evaluate (C19) - each is invalid, noisy or
conflicting on purpose. Every text carries the marker OUTMARK so that any evaluation that reaches a print handler or
an error message can be recognised.
"""
from __future__ import annotations
import random

OUTMARK = "OUT_OF_CLOSURE"

TEXT_FAULTS = {
    "garbage": "\x00\x01 %%% ~~ ]] {{ @@ ÿ☃ " + OUTMARK + "\n",
    "noise_ascii": "uint8 a b c = = =\n@sealed @sealed\n---\n---\n# " + OUTMARK + "\n",
    "empty": "",
    "no_seal": "uint8 a  # " + OUTMARK + "\n",
    "both_seal": "uint8 a\n@sealed\n@extent 64\n",
    "bad_width": "uint65 a\n@sealed\n",
    "bad_name": "uint8 _bad_\n@sealed\n",
    "reserved_name": "uint8 float\n@sealed\n",
    "dup_attr": "uint8 a\nuint16 a\n@sealed\n",
    "union_one": "@union\nuint8 a\n@sealed\n",
    "union_pad": "@union\nuint8 a\nvoid8\nuint8 b\n@sealed\n",
    "bare_utf8": "utf8 s\n@sealed\n",
    "named_void": "void8 v\n@sealed\n",
    "zero_cap": "uint8[0] a\n@sealed\n",
    "extent_small": "uint64 a\n@extent 8\n",
    "extent_odd": "uint8 a\n@extent 13\n",
    "assert_false": "@assert false  # " + OUTMARK + "\n@sealed\n",
    "assert_nonbool": "@assert 1\n@sealed\n",
    "print": "@print '" + OUTMARK + "'\n@sealed\n",
    "print_offset": "uint8 a\n@print _offset_\n@print '" + OUTMARK + "'\n@sealed\n",
    "undefined_type": "no.such.Type.1.0 x\n@sealed\n",
    "undefined_ident": "@assert NOPE == 1\n@sealed\n",
    "div_zero": "uint8 X = 1 / 0\n@sealed\n",
    "const_range": "uint8 X = 256\n@sealed\n",
    "unknown_directive": "@frobnicate\n@sealed\n",
    "service": "uint8 a\n@sealed\n---\nuint8 b\n@sealed\n",
    "two_markers": "@sealed\n---\n@sealed\n---\n@sealed\n",
    "deep_parens": "@assert " + "(" * 80 + "true" + ")" * 80 + "\n@sealed\n",
    "self_ref": "SELF x\n@sealed\n",
    "valid_other": "uint64[<=100] big\n@extent 8000\n",
    "valid_sealed": "uint8 q\n@sealed\n",
    "deprecated": "@deprecated\nuint8 q\n@sealed\n",
}


def pick_text_fault(rng: random.Random) -> tuple[str, str]:
    k = rng.choice(sorted(TEXT_FAULTS))
    return k, TEXT_FAULTS[k]


MALFORMED_FILE_NAMES = [
    "Foo.dsdl", "Foo.1.dsdl", "Foo.1.0.0.0.dsdl", "1.2.Foo.1.0.dsdl", "Foo.x.0.dsdl", "Foo.1.y.dsdl", "abc.Foo.1.0.dsdl",
    ".1.0.dsdl", "Foo..0.dsdl", "Foo.1.0.uavcan.dsdl", "Foo.1.0.x.uavcan", ".dsdl", "nodots.uavcan",
    "Foo.1.0rc1.dsdl", "Foo.1x.0.dsdl", "7509abc.Foo.1.0.dsdl",
]
