"""Reference bit-length-set algebra. Never imports pydsdl.

Every node is defined by the mathematical set it denotes:
  Leaf(S)            S
  Cat(a, b, ...)     {x1+x2+... | xi in child_i}
  Uni(a, b, ...)     union
  Rep(a, k)          k-fold sumset  a+a+...+a  (k >= 0; 0-fold = {0})
  Rng(a, k)          union of j-fold sumsets for 0 <= j <= k
  Pad(a, r)          {ceil(x / r) * r | x in a}

min / max are direct. Residues modulo m are computed in Z_m with bitmask sumsets and exponentiation by
squaring, so k up to 2**63 costs ~63 sumset squarings; nothing is enumerated. This is deliberately a different
algorithm from the code under test (which reduces k to min(k, d + k % d) and enumerates multisets).
Explicit expansion is available when bound() says the set is small.
"""
from __future__ import annotations
from math import comb, gcd


def _lcm(a: int, b: int) -> int:
    return a // gcd(a, b) * b


def _rot(mask: int, a: int, m: int) -> int:
    a %= m
    if a == 0:
        return mask
    full = (1 << m) - 1
    return ((mask << a) | (mask >> (m - a))) & full


_DIV_CACHE: dict[int, list[int]] = {}


def _divisors(m: int) -> list[int]:
    if m not in _DIV_CACHE:
        ds = set()
        i = 1
        while i * i <= m:
            if m % i == 0:
                ds.add(i)
                ds.add(m // i)
            i += 1
        if len(_DIV_CACHE) > 2000:
            _DIV_CACHE.clear()
        _DIV_CACHE[m] = sorted(ds)
    return _DIV_CACHE[m]


def _period(mask: int, m: int) -> int:
    """Smallest p | m such that the subset of Z_m is invariant under translation by p."""
    if mask.bit_count() < 64:
        return m
    for p in _divisors(m):
        if p == m or _rot(mask, p, m) == mask:
            return p
    return m


def _fold(mask: int, m: int, p: int) -> int:
    out = 0
    low = (1 << p) - 1
    while mask:
        out |= mask & low
        mask >>= p
    return out


def _unfold(mask: int, p: int, m: int) -> int:
    out = 0
    for i in range(m // p):
        out |= mask << (i * p)
    return out


def _sumset(a: int, b: int, m: int) -> int:
    """Minkowski sum of two subsets of Z_m given as bitmasks."""
    if a == 0 or b == 0:
        return 0
    if a.bit_count() > b.bit_count():
        a, b = b, a
    # b is the denser operand: if it is periodic, work in the quotient group
    if m > 256:
        p = _period(b, m)
        if p < m:
            return _unfold(_sumset(_fold(a, m, p), b & ((1 << p) - 1), p), p, m)
    out = 0
    i = 0
    while a:
        if a & 1:
            out |= _rot(b, i, m)
        a >>= 1
        i += 1
    return out


def _mask(values, m: int) -> int:
    out = 0
    for v in values:
        out |= 1 << (v % m)
    return out


def _unmask(mask: int) -> set[int]:
    out = set()
    i = 0
    while mask:
        if mask & 1:
            out.add(i)
        mask >>= 1
        i += 1
    return out


class Node:
    lo: int
    hi: int

    def modmask(self, m: int) -> int:
        c = self.__dict__.setdefault("_mc", {})
        if m not in c:
            if len(c) > 64:
                c.clear()
            c[m] = self._mm(m)
        return c[m]

    def _mm(self, m: int) -> int:
        raise NotImplementedError

    def mod(self, m: int) -> set[int]:
        return _unmask(self.modmask(m))

    def bound(self) -> int:
        """Upper bound on the cardinality (never an under-estimate)."""
        raise NotImplementedError

    def expand(self) -> frozenset[int]:
        raise NotImplementedError

    def _rb(self) -> int:
        return self.hi - self.lo + 1

    def work(self) -> int:
        """Upper bound on the number of tuples a naive enumerator (itertools.product / multiset combinations over
        the children's expanded sets) would visit to expand this node, children included."""
        raise NotImplementedError


class Leaf(Node):
    def __init__(self, values):
        self.s = frozenset(int(v) for v in values)
        if not (self.s and all(v >= 0 for v in self.s)):  # not an assert statement: workers may run under python -O
            raise AssertionError('self.s and all(v >= 0 for v in self.s)')
        self.lo, self.hi = min(self.s), max(self.s)

    def _mm(self, m):
        return _mask(self.s, m)

    def bound(self):
        return len(self.s)

    def expand(self):
        return self.s

    def work(self):
        return len(self.s)


class Cat(Node):
    def __init__(self, *ch: Node):
        if not (ch):  # not an assert statement: workers may run under python -O
            raise AssertionError('ch')
        self.ch = ch
        self.lo = sum(c.lo for c in ch)
        self.hi = sum(c.hi for c in ch)

    def _mm(self, m):
        acc = 1  # {0}
        for c in self.ch:
            acc = _sumset(acc, c.modmask(m), m)
        return acc

    def bound(self):
        b = 1
        for c in self.ch:
            b *= c.bound()
        return min(b, self._rb())

    def expand(self):
        acc = {0}
        for c in self.ch:
            e = c.expand()
            acc = {x + y for x in acc for y in e}
        return frozenset(acc)

    def work(self):
        w = 1
        for c in self.ch:
            w *= c.bound()
        return min(w, 1 << 62) + sum(c.work() for c in self.ch)


class Uni(Node):
    def __init__(self, *ch: Node):
        if not (ch):  # not an assert statement: workers may run under python -O
            raise AssertionError('ch')
        self.ch = ch
        self.lo = min(c.lo for c in ch)
        self.hi = max(c.hi for c in ch)

    def _mm(self, m):
        acc = 0
        for c in self.ch:
            acc |= c.modmask(m)
        return acc

    def bound(self):
        return min(sum(c.bound() for c in self.ch), self._rb())

    def expand(self):
        acc: set[int] = set()
        for c in self.ch:
            acc |= c.expand()
        return frozenset(acc)

    def work(self):
        return sum(c.bound() + c.work() for c in self.ch)


def _pow_mask(base: int, k: int, m: int) -> int:
    """k-fold sumset of base in Z_m by squaring. 0-fold is {0}."""
    result = 1
    sq = base
    while k:
        if k & 1:
            result = _sumset(result, sq, m)
        k >>= 1
        if k:
            sq = _sumset(sq, sq, m)
    return result


class Rep(Node):
    def __init__(self, a: Node, k: int):
        if not (k >= 0):  # not an assert statement: workers may run under python -O
            raise AssertionError('k >= 0')
        self.a, self.k = a, int(k)
        self.lo, self.hi = a.lo * self.k, a.hi * self.k

    def _mm(self, m):
        return _pow_mask(self.a.modmask(m), self.k, m)

    def bound(self):
        n = self.a.bound()
        if self.k == 0:
            return 1
        c = comb(n + self.k - 1, self.k) if (n + self.k) < 4000 else 1 << 62
        return min(c, self._rb())

    def expand(self):
        e = self.a.expand()
        acc = {0}
        for _ in range(self.k):
            acc = {x + y for x in acc for y in e}
        return frozenset(acc)

    def work(self):
        n = self.a.bound()
        c = comb(n + self.k - 1, self.k) if (n + self.k) < 4000 else 1 << 62
        return min(c, 1 << 62) + self.a.work()


class Rng(Node):
    def __init__(self, a: Node, k: int):
        if not (k >= 0):  # not an assert statement: workers may run under python -O
            raise AssertionError('k >= 0')
        self.a, self.k = a, int(k)
        self.lo, self.hi = 0, a.hi * self.k

    def _mm(self, m):
        # union_{j<=k} jS  ==  k-fold sumset of (S u {0}) ... only if 0-padding is legal: j-fold sums of S padded
        # with (k-j) zeros are exactly the k-fold sums of S u {0}. Yes: that is an identity of sets of integers,
        # hence of residues.
        return _pow_mask(self.a.modmask(m) | 1, self.k, m)

    def bound(self):
        n = self.a.bound() + 1
        if self.k == 0:
            return 1
        c = comb(n + self.k - 1, self.k) if (n + self.k) < 4000 else 1 << 62
        return min(c, self._rb())

    def expand(self):
        e = self.a.expand()
        out = {0}
        layer = {0}
        for _ in range(self.k):
            layer = {x + y for x in layer for y in e}
            out |= layer
        return frozenset(out)

    def work(self):
        n = self.a.bound()
        c = comb(n + self.k, self.k) if (n + self.k) < 4000 else 1 << 62
        return min(c, 1 << 62) + self.a.work()


class Pad(Node):
    def __init__(self, a: Node, r: int):
        if not (r >= 1):  # not an assert statement: workers may run under python -O
            raise AssertionError('r >= 1')
        self.a, self.r = a, int(r)
        self.lo, self.hi = self._pad(a.lo), self._pad(a.hi)

    def _pad(self, x: int) -> int:
        return -(-x // self.r) * self.r

    def _mm(self, m):
        big = _lcm(self.r, m)
        # x = q*big + t  =>  pad(x) = q*big + pad(t)  (big is a multiple of r), and big is a multiple of m.
        out = 0
        src = self.a.modmask(big)
        t = 0
        while src:
            if src & 1:
                out |= 1 << (self._pad(t) % m)
            src >>= 1
            t += 1
        return out

    def bound(self):
        return min(self.a.bound(), self._rb() // self.r + 1)

    def expand(self):
        return frozenset(self._pad(x) for x in self.a.expand())

    def work(self):
        return self.a.bound() + self.a.work()


def summary(n: Node, limit: int = 4096) -> dict:
    """What a check compares against: always min/max/residues; the explicit set when provably small."""
    out = {"min": n.lo, "max": n.hi, "mod": {m: sorted(n.mod(m)) for m in (8, 32, 64)}}
    if n.work() <= limit * 8:
        out["set"] = sorted(n.expand())
    return out
