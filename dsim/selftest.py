"""Self-tests of the simulator itself: setup, seams, determinism (see DESIGN.md §2.7).

  ./check selftest setup         quick sanity (used as MANIFEST.setup_cmd)
  ./check selftest seams         every seam demonstrably bites
  ./check selftest determinism   same (seed, run) twice in fresh interpreters, at worker counts 1/4/16 and under other
                                 PYTHONHASHSEEDs: event-log digests must be identical
"""
from __future__ import annotations
import json
import os
import subprocess
import sys
import tempfile

from . import main as M

ALL = ["C01", "C02", "C03", "C05", "C06", "C07", "C08", "C09", "C10", "C11", "C12", "C13", "C14", "C15", "C16", "C17", "C18", "C19"]


def _available() -> list[str]:
    out = []
    for p in ALL:
        if os.path.exists(os.path.join(M.VERIF, "dsim", "checks", p.lower() + ".py")):
            out.append(p)
    return out


def setup() -> int:
    code = ("import sys, os; sys.path.insert(0, os.environ['DSIM_REPO']); import pydsdl; "
            "print(os.path.realpath(pydsdl.__file__))")
    r = subprocess.run([M.PY, "-c", code], env=M._env(1), capture_output=True, text=True)
    if r.returncode != 0 or not r.stdout.strip().startswith(os.path.realpath(M.REPO)):
        print("setup: cannot import pydsdl from %s: %s %s" % (M.REPO, r.stdout, r.stderr))
        return 2
    os.makedirs(os.path.join(M.VERIF, "scratch"), exist_ok=True)
    os.makedirs(os.path.join(M.VERIF, "replays"), exist_ok=True)
    os.makedirs(os.path.join(M.VERIF, "evidence"), exist_ok=True)
    print("setup ok: python=%s pydsdl=%s checks=%s" % (M.PY, r.stdout.strip(), ",".join(_available())))
    return 0


def seams() -> int:
    code = r'''
import os, sys, tempfile, pathlib
sys.path.insert(0, os.environ["DSIM_REPO"])
from dsim.env import fsseam
d = tempfile.mkdtemp(dir="/dev/shm" if os.path.isdir("/dev/shm") else None)
for n in "abcdefgh":
    os.makedirs(os.path.join(d, n)); open(os.path.join(d, n, n + ".1.0.dsdl"), "w").close()
fsseam.install()
orders = set()
for key in (1, 2, 3, 4, 5):
    fsseam.set_key(key)
    orders.add(tuple(p.name for p in pathlib.Path(d).rglob("*.dsdl")))
    assert [e.name for e in os.scandir(d)] == os.listdir(d)
fsseam.set_key(None)
assert len(orders) >= 3, orders
log = fsseam.start_open_log(d)
open(os.path.join(d, "a", "a.1.0.dsdl")).close(); pathlib.Path(d, "b", "b.1.0.dsdl").read_text()
assert fsseam.stop_open_log() == ["a/a.1.0.dsdl", "b/b.1.0.dsdl"], log
print("hashprobe", list({"alpha", "beta", "gamma", "delta", "omega", "zeta"}))
import shutil; shutil.rmtree(d)
'''
    outs = set()
    for hs in (1, 2, 3, 4):
        r = subprocess.run([M.PY, "-c", code], env=M._env(hs), capture_output=True, text=True, cwd=M.VERIF)
        if r.returncode != 0:
            print("seams: FAILED\n" + r.stderr[-2000:])
            return 2
        outs.add(r.stdout.strip())
    if len(outs) < 2:
        print("seams: PYTHONHASHSEED does not change set iteration order?!")
        return 2
    print("seams ok: enumeration keys reorder rglob/scandir/listdir; open monitor records; %d distinct set orders over 4 hash seeds" % len(outs))
    return 0


def _digests(prop: str, seed: int, runs: int, nworkers: int, hs_salt: int) -> dict:
    from .checks.base import load
    check = load(prop)
    old = M.hashseed_for
    M.hashseed_for = lambda s, w: old(s + hs_salt, w)  # type: ignore
    try:
        agg = M.run_batch(check, prop, "quick", seed, runs, 600.0, nworkers=nworkers)
    finally:
        M.hashseed_for = old  # type: ignore
    if agg["harness"]:
        raise SystemExit("determinism: harness errors in %s: %s" % (prop, agg["harness"][:2]))
    return {int(r): sorted(set(d)) for r, d in agg["digests"].items()}


def determinism(props: list[str], runs: int) -> int:
    bad = 0
    for prop in props:
        base = _digests(prop, 4242, runs, 16, 0)
        for (nw, salt) in ((16, 0), (4, 1), (1, 2), (16, 3)):
            n = runs if nw > 1 else max(4, runs // 8)
            other = _digests(prop, 4242, n, nw, salt)
            diff = [r for r in other if other[r] != base.get(r) or len(other[r]) != 1]
            print("determinism %s: %d runs, workers=%d, hashseed salt=%d: %s" % (prop, len(other), nw, salt, "identical digests" if not diff else "DIVERGED at runs %s" % diff[:10]))
            bad += len(diff)
    return 0 if bad == 0 else 2


def main(a) -> int:
    which = a.tier if a.tier not in ("quick", "thorough") else "setup"
    extra = [x for x in sys.argv[2:] if not x.startswith("-")]
    which = extra[0] if extra else "setup"
    if which == "setup":
        return setup()
    if which == "seams":
        return seams()
    if which == "determinism":
        props = [p.upper() for p in extra[1:]] or _available()
        return determinism(props, int(os.environ.get("DSIM_DET_RUNS", "64")))
    print("unknown selftest", which)
    return 2
