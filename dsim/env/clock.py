"""Virtual monotonic clock: time.monotonic (also the name already imported into pydsdl modules, looked up through the
`time` module at call time) returns a deterministic value that advances by a fixed tick per call and by the jumps the
scenario injects (forwards and backwards). Nothing in the simulator's own logic reads it."""
from __future__ import annotations
import time

_real = time.monotonic
_state = {"now": 1000.0, "installed": False, "calls": 0}


def _virtual() -> float:
    _state["calls"] += 1
    _state["now"] += 1e-6
    return _state["now"]


def install() -> None:
    if not _state["installed"]:
        time.monotonic = _virtual  # type: ignore[assignment]
        _state["installed"] = True


def uninstall() -> None:
    time.monotonic = _real  # type: ignore[assignment]
    _state["installed"] = False


def reset(t0: float = 1000.0) -> None:
    _state["now"] = t0
    _state["calls"] = 0


def jump(dt: float) -> None:
    _state["now"] += dt


def calls() -> int:
    return _state["calls"]
