"""File-system seams owned by the simulator (all outside /repo):

 * directory enumeration order: pathlib.Path._scandir, os.scandir, os.listdir return the real entries in an order
   that is a pure function of (key, entry names);
 * an open() monitor recording which files were opened, in which order (interleaving signature; a probe only);
 * a virtual monotonic clock (see clock.py) is installed separately.
"""
from __future__ import annotations
import builtins
import io
import os
import pathlib
from ..core.rng import keyed_order

_real_scandir = os.scandir
_real_listdir = os.listdir
_real_path_scandir = pathlib.Path._scandir  # type: ignore[attr-defined]
_real_open = builtins.open
_real_io_open = io.open

_state = {"key": None, "installed": False, "scandir_calls": 0, "open_log": None, "open_root": None}


class _OrderedScandir:
    """Mimics the os.scandir() iterator/context-manager protocol over a pre-fetched, re-ordered entry list."""

    def __init__(self, path):
        with _real_scandir(path) as it:
            entries = list(it)
        key = _state["key"]
        if key is not None:
            by_name = {}
            for e in entries:
                by_name[e.name if isinstance(e.name, str) else os.fsdecode(e.name)] = e
            entries = [by_name[n] for n in keyed_order(key, sorted(by_name))]
        self._entries = entries
        self._i = 0
        _state["scandir_calls"] += 1

    def __iter__(self):
        return self

    def __next__(self):
        if self._i >= len(self._entries):
            raise StopIteration
        e = self._entries[self._i]
        self._i += 1
        return e

    def __enter__(self):
        return self

    def __exit__(self, *a):
        self.close()
        return False

    def close(self):
        self._i = len(self._entries)


def _scandir(path="."):
    return _OrderedScandir(path)


def _listdir(path="."):
    names = _real_listdir(path)
    key = _state["key"]
    if key is None:
        return names
    if names and isinstance(names[0], bytes):
        dec = {os.fsdecode(n): n for n in names}
        return [dec[n] for n in keyed_order(key, sorted(dec))]
    return keyed_order(key, sorted(names))


def _path_scandir(self):
    return _OrderedScandir(self)


def _open(file, *a, **kw):
    log = _state["open_log"]
    if log is not None and isinstance(file, (str, os.PathLike)):
        try:
            p = os.path.realpath(os.fspath(file))
            root = _state["open_root"]
            if root and p.startswith(root + os.sep):
                log.append(p[len(root) + 1:])
        except Exception:  # noqa - the monitor must never disturb the system under test
            pass
    return _real_open(file, *a, **kw)


def install() -> None:
    if _state["installed"]:
        return
    os.scandir = _scandir  # type: ignore[assignment]
    os.listdir = _listdir  # type: ignore[assignment]
    pathlib.Path._scandir = _path_scandir  # type: ignore[attr-defined]
    builtins.open = _open  # type: ignore[assignment]
    io.open = _open  # type: ignore[assignment]
    _state["installed"] = True


def uninstall() -> None:
    os.scandir = _real_scandir  # type: ignore[assignment]
    os.listdir = _real_listdir  # type: ignore[assignment]
    pathlib.Path._scandir = _real_path_scandir  # type: ignore[attr-defined]
    builtins.open = _real_open  # type: ignore[assignment]
    io.open = _real_io_open  # type: ignore[assignment]
    _state["installed"] = False


def set_key(key) -> None:
    _state["key"] = key


def scandir_calls() -> int:
    return _state["scandir_calls"]


def start_open_log(root: str) -> list:
    _state["open_root"] = os.path.realpath(root)
    _state["open_log"] = []
    return _state["open_log"]


def stop_open_log() -> list:
    log = _state["open_log"] or []
    _state["open_log"] = None
    return log
