"""Worker process: runs under one PYTHONHASHSEED, imports the code under test from DSIM_REPO.

  batch mode: generate + execute runs r = wid, wid+nw, ... ; one JSON line per event on stdout
  exec mode : read scenarios (one JSON per line) on stdin, answer one JSON line each (replay / shrink / confirm)
"""
from __future__ import annotations
import argparse
import faulthandler
import json
import os
import sys
import time
import traceback


def _setup_imports() -> str:
    repo = os.environ.get("DSIM_REPO", "/repo")
    sys.path.insert(0, repo)
    import pydsdl  # noqa

    here = os.path.realpath(os.path.dirname(pydsdl.__file__))
    if not here.startswith(os.path.realpath(repo) + os.sep):
        raise SystemExit("harness error: pydsdl imported from %s, expected under %s" % (here, repo))
    import logging

    logging.disable(logging.CRITICAL)  # pydsdl logs warnings for .uavcan files etc.; never part of an oracle
    return repo


def _emit(o: dict) -> None:
    sys.stdout.write(json.dumps(o, sort_keys=True, default=_jd) + "\n")
    sys.stdout.flush()


def _jd(o):
    from fractions import Fraction

    if isinstance(o, Fraction):
        return [o.numerator, o.denominator]
    if isinstance(o, (set, frozenset)):
        return sorted(o)
    if isinstance(o, bytes):
        return {"$hex": o.hex()}
    return repr(o)


def run_one(check, scn: dict) -> dict:
    from dsim.core.scenario import digest

    from dsim.checks.base import InvalidScenario

    from dsim.worlds import workspace

    workspace.begin_run(digest({k: v for k, v in scn.items() if k not in ("seed", "run", "prop")}))
    try:
        out = check.execute(scn)
    except InvalidScenario as ex:
        return {"harness_error": "invalid scenario: %s" % ex, "invalid": True}
    except Exception as ex:
        # an exception that comes out of the code under test itself (innermost frame inside pydsdl) while the check was asking
        # it something the property speaks about is behaviour of the code under test: a violation of the check's crash oracle.
        # Anything else is a harness error: never a violation, never a success.
        from dsim.checks.base import raised_inside_sut
        oracle = getattr(check, "CRASH_ORACLE", None)
        if oracle and raised_inside_sut(ex):
            tb = "".join(traceback.format_tb(ex.__traceback__)[-4:])[-900:]
            return {"viol": [{"oracle": oracle, "detail": "the code under test raised %s: %s\n%s" % (type(ex).__name__, str(ex)[:200], tb), "sig": "sut-raised:" + type(ex).__name__}],
                    "digest": digest(["sut-raised", type(ex).__name__]), "xdigest": None, "stats": {"sut_raised": 1}, "shape": "sut-raised", "shapes": None, "nt": True}
        return {"harness_error": traceback.format_exc()[-3000:]}
    finally:
        workspace.end_run()
    res = {
        "viol": out.viol,
        "digest": digest(out.obs),
        "xdigest": digest(out.xobs) if out.xobs is not None else None,
        "stats": dict(out.stats),
        "shape": out.shape,
        "shapes": sorted(set(out.shapes))[:64] if out.shapes else None,
        "nt": bool(out.nontrivial),
    }
    if os.environ.get("DSIM_DUMP_OBS"):
        res["obs"] = out.obs
    return res


def main() -> None:
    ap = argparse.ArgumentParser()
    ap.add_argument("mode", choices=["batch", "exec"])
    ap.add_argument("--prop", required=True)
    ap.add_argument("--seed", type=int, default=0)
    ap.add_argument("--tier", default="quick")
    ap.add_argument("--wid", type=int, default=0)
    ap.add_argument("--nw", type=int, default=1)
    ap.add_argument("--runs", type=int, default=1)
    ap.add_argument("--budget", type=float, default=60.0)
    ap.add_argument("--first", type=int, default=0)
    a = ap.parse_args()
    faulthandler.enable()
    _setup_imports()
    sys.setrecursionlimit(3000)
    from dsim.checks.base import load
    from dsim.core.rng import stream

    check = load(a.prop)
    check.heartbeat = lambda: _emit({"ev": "hb"})  # type: ignore[method-assign]
    from dsim.env import fsseam

    fsseam.install()
    hashseed = os.environ.get("PYTHONHASHSEED", "random")
    check.warmup()
    if a.mode == "exec":
        for line in sys.stdin:
            line = line.strip()
            if not line:
                continue
            scn = json.loads(line)
            res = run_one(check, scn)
            res["hashseed"] = hashseed
            _emit(res)
        return
    t0 = time.monotonic()  # real time is used for the batch budget only; nothing simulated reads it
    n = 0
    samples = 0
    for r in range(a.first + a.wid, a.first + a.runs, a.nw):
        if time.monotonic() - t0 > a.budget:
            break
        scn = check.generate(stream(a.seed, a.prop, "run", r), r, a.tier)
        scn.setdefault("prop", a.prop)
        scn["seed"] = a.seed
        scn["run"] = r
        _emit({"ev": "start", "r": r})
        faulthandler.dump_traceback_later(120, exit=False, file=sys.stderr)
        res = run_one(check, scn)
        faulthandler.cancel_dump_traceback_later()
        res.update(ev="done", r=r, hashseed=hashseed)
        if res.get("viol") or res.get("harness_error") or (samples < 2 and res.get("nt")):
            res["scn"] = scn
            samples += 1
        _emit(res)
        n += 1
    _emit({"ev": "end", "runs": n, "wall": time.monotonic() - t0})


if __name__ == "__main__":
    main()
